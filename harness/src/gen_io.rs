//! Generators for the I/O-level properties: C15 (Frame::read/write), C16 (SerialSignBus),
//! C17 (serial path vs direct), C18 (pacing), C20 (port setup).
use crate::proto::*;
use crate::rng::Rng;
use crate::Ctx;

pub fn generate_io(prop: &str, ctx: &mut Ctx) {
    match prop {
        "C15" => gen_c15(ctx),
        "C16" => gen_c16(ctx),
        "C17" => gen_c17(ctx),
        "C18" => gen_c18(ctx),
        "C20" => gen_c20(ctx),
        _ => panic!("no generator for {}", prop),
    }
}

fn enc(a: u16, t: u8, d: &[u8], nl: bool) -> Vec<u8> {
    crate::gen::ref_encode(a, t, d, nl)
}

fn enc_msg(m: &str) -> Vec<u8> {
    let f = crate::eval::eval_case(&format!("M2F {}", m));
    let p: Vec<&str> = f.split('.').collect();
    enc(p[0].parse().unwrap(), p[1].parse().unwrap(), &bytes_of_hex(p[2]), true)
}

fn dec(bytes: &[u8]) -> String {
    crate::eval::eval_case(&format!("DEC {}", hex_of_bytes(bytes)))
}

/// Hard (non-Interrupted) I/O error kinds injected into reads / writes; the property treats them alike.
pub const RFAIL_KINDS: [&str; 6] = ["F", "FT", "FW", "FE", "FB", "FD"];
pub const WFAIL_KINDS: [&str; 5] = ["F", "FT", "FW", "FB", "FZ"];

/// (first line incl. LF or everything, rest)
fn first_line(content: &[u8]) -> (&[u8], &[u8]) {
    match content.iter().position(|b| *b == b'\n') {
        Some(i) => (&content[..=i], &content[i + 1..]),
        None => (content, &[]),
    }
}

use crate::gen::line_endings;

fn rd_case(ctx: &mut Ctx, k: usize, content: &[u8], sched: &[String], class: &str) {
    let line = format!("RD {} {} {}", k, hex_of_bytes(content), sched.join(" "));
    let line = line.trim_end().to_string();
    let res = ctx.case(line.clone(), true, class);
    // monitor (only when no hard failure is scheduled): k reads return the decodings of the first
    // k lines in order and leave exactly the rest
    if !sched.iter().any(|s| s.starts_with('F')) {
        let mut rest: &[u8] = content;
        let mut outs = vec![];
        for _ in 0..k {
            let (l, r) = first_line(rest);
            outs.push(dec(l));
            rest = r;
        }
        let want = format!("{} | {}", outs.join(" ; "), hex_of_bytes(rest));
        ctx.monitor(res == want, "C15-read-exactly-one-line", &line, &format!("wanted [{}] got [{}]", want, res));
    } else {
        // a hard error surfaces as an I/O error (or the read completed before reaching it);
        // never more than the lines requested are consumed
        let mut rest: &[u8] = content;
        for _ in 0..k {
            rest = first_line(rest).1;
        }
        let rem = bytes_of_hex(res.rsplit(" | ").next().unwrap_or("-"));
        let ok = rem.len() >= rest.len() && content.ends_with(&rem);
        ctx.monitor(ok, "C15-read-no-overconsumption", &line, &res);
    }
}

fn gen_c15(ctx: &mut Ctx) {
    // writing delivers the whole frame also into a sink that, for everything it is given, writes a carrier frame of its
    // own with Frame::write (a tunnel): a frame written from inside the writing of a frame
    for msgs in [vec!["HE.3", "SD.16.0102", "RS.5.PLD"], vec!["SD.0.000102030405060708090A0B0C0D0E0F", "DC.1"], vec!["QS.65535"]] {
        let line = format!("WIRES & {}", msgs.join(" "));
        let res = ctx.case(line.clone(), true, "tunnelling-sink");
        let want = format!("{} | left=0", msgs.iter().map(|m| format!("OK {}", m)).collect::<Vec<_>>().join(" ; "));
        ctx.monitor(res == want, "C15-write-all", &line, &res);
    }
    let mut rng = Rng::new(ctx.seed, 15);
    // every data length 0..=255 written with Frame::write and read back with Frame::read
    for len in 0..=255usize {
        let d = rng.bytes(len);
        let msgs = vec![format!("SD.{}.{}", len, hex_of_bytes(&d)), "DC.1".to_string()];
        let line = format!("WIRES {}", msgs.join(" "));
        let res = ctx.case(line.clone(), true, "every-data-length");
        let want = format!("{} | left=0", msgs.iter().map(|m| format!("OK {}", m)).collect::<Vec<_>>().join(" ; "));
        ctx.monitor(res == want, "C15-write-all", &line[..line.len().min(300)], &res[..res.len().min(200)]);
    }
    let thorough = ctx.tier_thorough;
    let f1 = enc(2, 1, &[3, 31], true);
    let f2 = enc(0, 0, &[], true);
    let f3 = enc(0xFFFF, 4, &[0x0F], true);
    let f_nocr = {
        let mut v = enc(3, 2, &[0xFF], false);
        v.push(b'\n');
        v
    };
    let streams: Vec<(Vec<u8>, usize)> = vec![
        (f2.clone(), 1),
        ([f2.clone(), b"AB".to_vec()].concat(), 1),
        ([f2.clone(), f2.clone()].concat(), 2),
        ([f1.clone(), f2.clone(), b"\x00\xff:".to_vec()].concat(), 2),
        ([f1.clone(), f3.clone(), f2.clone(), b"tail\n".to_vec()].concat(), 3),
        (enc(2, 1, &[3, 31], false), 1),         // no terminator at all: EOF ends the line
        ([f_nocr.clone(), f2.clone()].concat(), 2), // bare LF: line ends there, decode rejects it
        (b"\n\n".to_vec(), 2),
        (vec![], 1),
        (b":00".to_vec(), 1),
    ];
    // a complete frame text followed by every kind of line ending and stray byte, then a frame: each read returns what
    // decoding that first line alone gives
    for term in line_endings() {
        let mut v = enc(3, 2, &[0x55], false);
        v.extend_from_slice(&term);
        v.extend(f2.clone());
        for sched in [vec![], vec!["D0".to_string(), "I".to_string(), "D2".to_string()]] {
            rd_case(ctx, 1, &v, &sched, "line-endings");
            rd_case(ctx, 2, &v, &sched, "line-endings");
        }
    }
    // exhaustive schedules over {D0, D2, I} up to length L for the short streams
    let maxl = if thorough { 7 } else { 5 };
    let evs = ["D0", "D2", "I", "D40"];
    for (si, (content, k)) in streams.iter().enumerate() {
        for len in 0..=maxl {
            let total = 4usize.pow(len as u32);
            let step = if si < 3 || thorough { 1 } else { 1 + total / 64 };
            let mut code = 0;
            while code < total {
                let mut c = code;
                let sched: Vec<String> = (0..len)
                    .map(|_| {
                        let e = evs[c % 4];
                        c /= 4;
                        e.to_string()
                    })
                    .collect();
                rd_case(ctx, *k, content, &sched, "exhaustive-schedule");
                code += step;
            }
        }
        // hard error at every call index (with interrupts before it)
        let ncalls = content.len() + 3;
        for at in 0..ncalls.min(if thorough { 200 } else { 40 }) {
            let mut sched: Vec<String> = (0..at).map(|i| if i % 5 == 4 { "I".to_string() } else { "D0".to_string() }).collect();
            sched.push(RFAIL_KINDS[at % RFAIL_KINDS.len()].to_string());
            rd_case(ctx, *k, content, &sched, "hard-error-at-index");
        }
    }
    // over-long lines (longer than any legal frame) whose tail would be a valid frame on its own, followed by a frame
    for junk in [521usize, 522, 523, 524, 525, 600, 1046, 1047] {
        for filler in [b'3', b':', b'G'] {
            let mut content: Vec<u8> = vec![filler; junk];
            content.extend(enc(7, 2, &[0xFF], true));
            content.extend(enc(9, 4, &[0x10], true));
            content.extend_from_slice(b"xy");
            for sched in [vec![], vec!["D0".to_string(), "I".to_string(), "D700".to_string()], vec!["D522".to_string(), "D0".to_string()]] {
                rd_case(ctx, 2, &content, &sched, "over-long-line");
                rd_case(ctx, 3, &content, &sched, "over-long-line");
            }
        }
    }
    // "however often it reports an interrupted read": bursts of 300, 65535, 65536 and 70000 interrupts before a byte
    for burst in [300usize, 65535, 65536, 70000] {
        let content = [enc(3, 2, &[0xFF], true), enc(5, 4, &[0x10], true)].concat();
        let mut sched: Vec<String> = vec!["D0".to_string(), "D0".to_string()];
        sched.extend((0..burst).map(|_| "I".to_string()));
        sched.push("D3".to_string());
        sched.extend((0..burst / 2).map(|_| "I".to_string()));
        rd_case(ctx, 2, &content, &sched, "interrupt-burst");
        if burst >= 65535 {
            // the same on an ordinary 2 MiB stack (a child process): however often means however often
            let line = format!("CHILD RD 2 {} {}", hex_of_bytes(&content), sched.join(" "));
            let res = ctx.case(line, true, "interrupt-burst-small-stack");
            ctx.monitor(res.starts_with("OK ") || res == "UNAVAILABLE", "C15-read-exactly-one-line", &format!("CHILD RD 2 <two frames> <{} interrupts before a byte>", burst), &res[..res.len().min(100)]);
        }
    }
    // noise lines far longer than any frame, followed by frames
    for junk in [4095usize, 4096, 4097, 5000, 8193, 20000] {
        let mut content: Vec<u8> = (0..junk).map(|i| b"0123456789ABCDEF:xyz"[i % 20]).collect();
        content.push(b'\n');
        content.extend(enc(7, 2, &[0xFF], true));
        content.extend(enc(9, 4, &[0x10], true));
        rd_case(ctx, 3, &content, &[], "very-long-noise-line");
        rd_case(ctx, 2, &content, &["D4095".to_string(), "D0".to_string(), "I".to_string()], "very-long-noise-line");
    }
    // random longer streams and schedules
    for _ in 0..(if thorough { 4000 } else { 400 }) {
        let nf = 1 + rng.below(3) as usize;
        let mut content = vec![];
        for _ in 0..nf {
            let len = *rng.pick(&[0usize, 1, 2, 16, 40, 255]);
            let d = rng.bytes(len);
            let mut e = enc(rng.below(65536) as u16, rng.byte(), &d, true);
            if rng.chance(1, 10) {
                let i = rng.below(e.len() as u64) as usize;
                e[i] = rng.byte();
            }
            content.extend(e);
        }
        let ntrail = rng.below(6) as usize;
        content.extend(rng.bytes(ntrail));
        let ns = rng.below(40) as usize;
        let sched: Vec<String> = (0..ns)
            .map(|_| match rng.below(8) {
                0 => "I".to_string(),
                1 if rng.chance(1, 4) => rng.pick(&RFAIL_KINDS).to_string(),
                _ => format!("D{}", rng.below(20)),
            })
            .collect();
        rd_case(ctx, nf, &content, &sched, "random");
    }
    // writes
    let wevs = ["A0", "A2", "I", "A40", "Z", "F"];
    let frames: Vec<(u16, u8, Vec<u8>)> = vec![(2, 1, vec![3, 31]), (0, 0, vec![]), (0xFFFF, 0xFF, (0..40).collect())];
    for (a, t, d) in &frames {
        let full = enc(*a, *t, d, true);
        let maxw = if thorough { 6 } else { 4 };
        for len in 0..=maxw {
            let total = 6usize.pow(len as u32);
            for code in 0..total {
                let mut c = code;
                let sched: Vec<String> = (0..len)
                    .map(|_| {
                        let e = wevs[c % 6];
                        c /= 6;
                        e.to_string()
                    })
                    .collect();
                let line = format!("WR {} {} {} {}", a, t, hex_of_bytes(d), sched.join(" "));
                let line = line.trim_end().to_string();
                let res = ctx.case(line.clone(), true, "write-schedule");
                let parts: Vec<&str> = res.split(" | ").collect();
                let out = bytes_of_hex(parts.get(1).copied().unwrap_or("-"));
                let ok = if parts[0] == "OK" { out == full } else { parts[0] == "ER IO" && full.starts_with(&out) && out.len() < full.len() };
                ctx.monitor(ok, "C15-write-all", &line, &res);
            }
        }
        // fault at every call index with one-byte accepts
        for at in 0..full.len().min(if thorough { 120 } else { 30 }) {
            for fault in [WFAIL_KINDS[at % WFAIL_KINDS.len()], "Z"] {
                let mut sched: Vec<String> = (0..at).map(|_| "A0".to_string()).collect();
                sched.push(fault.to_string());
                let line = format!("WR {} {} {} {}", a, t, hex_of_bytes(d), sched.join(" "));
                let res = ctx.case(line.clone(), true, "write-fault-at-index");
                ctx.monitor(res.starts_with("ER IO | "), "C15-write-error-surfaces", &line, &res);
            }
        }
    }
}

// ---------------------------------------------------------------------------------------------

fn all_kind_samples(rng: &mut Rng, addrs: &[u16]) -> Vec<String> {
    let mut v = vec![];
    for &a in addrs {
        for k in ["HE", "QS", "PC", "GB", "DC"] {
            v.push(format!("{}.{}", k, a));
        }
        for (_, st) in STATES.iter() {
            v.push(format!("RS.{}.{}", a, st));
        }
        for (_, op) in OPS.iter() {
            v.push(format!("RO.{}.{}", a, op));
            v.push(format!("AO.{}.{}", a, op));
        }
        for len in [0usize, 1, 16, 255] {
            v.push(format!("SD.{}.{}", a, hex_of_bytes(&rng.bytes(len))));
        }
        v.push(format!("UN.{}.9.0102", a));
        // unknown frames of every wire type the protocol uses, incl. ones that only miss being a known message by
        // their length or code, and frames wrapping a known message's exact bytes: no reply is due for any of them
        for (t, d) in [(2u8, "-"), (2, "01"), (2, "FF00"), (2, "FF"), (2, "00"), (3, "A3"), (3, "-"), (3, "A1"), (3, "A1A2"), (4, "99"), (5, "95"), (0, "0102"), (1, "-"), (6, "01")] {
            v.push(format!("UN.{}.{}.{}", a, t, d));
        }
    }
    v
}

fn reply_tapes(rng: &mut Rng, a: u16) -> Vec<(Vec<u8>, &'static str)> {
    let mut v: Vec<(Vec<u8>, &'static str)> = vec![];
    for (_, st) in STATES.iter() {
        v.push((enc_msg(&format!("RS.{}.{}", a, st)), "state-report"));
    }
    for (_, op) in OPS.iter() {
        v.push((enc_msg(&format!("AO.{}.{}", a, op)), "ack"));
        v.push((enc_msg(&format!("RO.{}.{}", a, op)), "other-kind"));
    }
    for k in ["HE", "QS", "PC", "GB", "DC"] {
        v.push((enc_msg(&format!("{}.{}", k, a)), "other-kind"));
    }
    v.push((enc_msg(&format!("SD.{}.0102", a)), "other-kind"));
    v.push((enc(a, 9, &[1, 2], true), "unknown-frame"));
    v.push((vec![], "empty-timeout"));
    v.push((b":00\r\n".to_vec(), "malformed"));
    v.push((b"garbage".to_vec(), "malformed"));
    let mut bad = enc_msg(&format!("RS.{}.UNC", a));
    let n = bad.len();
    bad[n - 3] ^= 1;
    v.push((bad, "bad-checksum"));
    let mut two = enc_msg(&format!("RS.{}.PLD", a));
    two.extend(enc_msg(&format!("RS.{}.PSH", a)));
    two.extend(rng.bytes(3));
    v.push((two, "two-frames-and-trailing"));
    // replies at and just below the maximum line length, each followed by another line: the read must
    // take the whole line including its CRLF and nothing of the next one
    for len in [255usize, 254, 253, 128] {
        let mut long = enc(a, 0, &rng.bytes(len), true);
        long.extend(enc_msg(&format!("RS.{}.PLD", a)));
        v.push((long, "max-length-reply-and-next"));
    }
    for junk in [523usize, 524, 600, 1046] {
        let mut long: Vec<u8> = vec![b'5'; junk];
        long.extend(enc_msg(&format!("RS.{}.PLD", a)));
        long.extend(enc_msg(&format!("RS.{}.PSH", a)));
        v.push((long, "over-long-line-hiding-a-frame"));
    }
    // reply lines with more than 255 data pairs whose length byte is the count modulo 256 (or one off) and whose checksum is
    // consistent, followed by a genuine reply
    {
        let mut r = Rng::new(16, 161);
        for mut s in crate::gen::oversize_strings(&mut r).into_iter().take(8) {
            if !s.ends_with(b"\r\n") {
                s.extend_from_slice(b"\r\n");
            }
            s.extend(enc_msg(&format!("RS.{}.PLD", a)));
            v.push((s, "over-long-consistent-line"));
        }
    }
    // reply lines in lower-case and mixed-case hex (a sign may send either)
    for m in [format!("RS.{}.PLD", 0x4B0Au16), format!("AO.{}.RPX", 0xFADEu16), format!("RS.{}.CFL", 0xABCDu16)] {
        let up = enc_msg(&m);
        let lower: Vec<u8> = up.iter().map(|c| c.to_ascii_lowercase()).collect();
        let mixed: Vec<u8> = up.iter().enumerate().map(|(i, c)| if i % 3 == 0 { c.to_ascii_lowercase() } else { *c }).collect();
        v.push((lower, "lower-case-reply"));
        v.push((mixed, "lower-case-reply"));
    }
    let mut lf_only = enc(a, 9, &rng.bytes(255), false);
    lf_only.push(b'\n');
    lf_only.extend(enc_msg(&format!("RS.{}.PSH", a)));
    v.push((lf_only, "max-length-reply-bare-lf"));
    v
}

fn sb_case(ctx: &mut Ctx, m: &str, tape: &[u8], rs: &[String], ws: &[String], class: &str) {
    let line = format!("SB {} {} {} / {}", m, hex_of_bytes(tape), rs.join(" "), ws.join(" "));
    let line = line.replace("  ", " ").trim_end().to_string();
    let res = ctx.case(line.clone(), true, class);
    let parts: Vec<&str> = res.split(" | ").collect();
    if parts.len() != 3 {
        ctx.monitor(false, "C16-shape", &line, &res);
        return;
    }
    let expected = m.starts_with("HE.") || m.starts_with("QS.") || m.starts_with("RO.");
    let frame = enc_msg(m);
    let out = bytes_of_hex(parts[1]);
    let rem = bytes_of_hex(parts[2]);
    let wfault = ws.iter().any(|s| s.starts_with('F') || s == "Z");
    let rfault = rs.iter().any(|s| s.starts_with('F'));
    let mut verdict: Option<String> = None;
    if !wfault && out != frame {
        verdict = Some("bytes written are not exactly the message's frame with CRLF".to_string());
    }
    if wfault && !frame.starts_with(&out) {
        verdict = Some("bytes written are not a prefix of the message's frame".to_string());
    }
    if !expected {
        if rem != tape {
            verdict = Some("read from the port although no reply is due".to_string());
        }
        if !wfault && parts[0] != "OK N" {
            verdict = Some(format!("no reply due but result {}", parts[0]));
        }
    } else if !wfault && !rfault {
        let (l, r) = first_line(tape);
        if rem != r {
            verdict = Some("did not consume exactly one line".to_string());
        }
        let d = dec(l);
        let want = if let Some(f) = d.strip_prefix("OK ") {
            let p: Vec<&str> = f.split('.').collect();
            let mm = crate::eval::eval_case(&format!("F2M {} {} {}", p[0], p[1], p[2]));
            format!("OK {}", mm.split(' ').next().unwrap())
        } else {
            "ER".to_string()
        };
        if parts[0] != want {
            verdict = Some(format!("result {} but the line decodes to {}", parts[0], want));
        }
    }
    if wfault && out.len() < frame.len() && !parts[0].starts_with("ER") {
        verdict = Some("write failure not returned as an error".to_string());
    }
    if parts[0] == "OK N" && expected {
        verdict = Some("a missing reply was returned although a reply is due".to_string());
    }
    ctx.monitor(verdict.is_none(), "C16-serial-exchange", &line, verdict.as_deref().unwrap_or(""));
}

/// Several exchanges on ONE SerialSignBus: an exchange must not be influenced by an earlier one on the same bus (a
/// reply cut off by a read failure, a failed write, a reply nobody asked for ...).
fn gen_c16_sequences(ctx: &mut Ctx, rng: &mut Rng) {
    let a = 3u16;
    let askers: Vec<String> = vec![format!("HE.{}", a), format!("QS.{}", a), format!("RO.{}.RPX", a), format!("RO.{}.FRS", a)];
    let silent: Vec<String> = vec![format!("PC.{}", a), format!("GB.{}", a), "DC.2".to_string(), "SD.16.0102".to_string(), format!("UN.{}.2.FF", a)];
    let replies: Vec<Vec<u8>> = vec![
        enc_msg(&format!("RS.{}.PLD", a)),
        enc_msg(&format!("AO.{}.RPX", a)),
        enc_msg(&format!("RS.{}.UNC", a)),
        enc(a, 9, &[1, 2, 3], true),
        enc(a, 0, &(0..255).collect::<Vec<u8>>(), true),
        b":00\r\n".to_vec(),
    ];
    let n = if ctx.tier_thorough { 4000 } else { 400 };
    for k in 0..n {
        let len = 2 + rng.below(3) as usize;
        let mut msgs: Vec<String> = vec![];
        let mut tape: Vec<u8> = vec![];
        for i in 0..len {
            let ask = if k % 4 == 0 { true } else { rng.chance(2, 3) };
            if ask {
                msgs.push(rng.pick(&askers).clone());
                if !(i + 1 == len && rng.chance(1, 6)) {
                    tape.extend(rng.pick(&replies));
                }
            } else {
                msgs.push(rng.pick(&silent).clone());
            }
        }
        // faults: a hard read failure part-way through the first reply line, or a failing / zero-length write,
        // or just fragmentation and interrupts
        let (rs, ws): (Vec<String>, Vec<String>) = match k % 4 {
            0 => {
                let at = 1 + rng.below(12) as usize;
                let mut rs: Vec<String> = (0..at).map(|i| if i % 5 == 4 { "I".to_string() } else { "D0".to_string() }).collect();
                rs.push(RFAIL_KINDS[k / 4 % RFAIL_KINDS.len()].to_string());
                (rs, vec![])
            }
            1 => {
                let at = rng.below(20) as usize;
                let mut ws: Vec<String> = (0..at).map(|_| format!("A{}", rng.below(4))).collect();
                ws.push(if rng.chance(1, 2) { "Z".to_string() } else { WFAIL_KINDS[k / 4 % WFAIL_KINDS.len()].to_string() });
                (vec![], ws)
            }
            2 => (
                (0..rng.below(30)).map(|_| if rng.chance(1, 4) { "I".to_string() } else { format!("D{}", rng.below(6)) }).collect(),
                (0..rng.below(20)).map(|_| if rng.chance(1, 4) { "I".to_string() } else { format!("A{}", rng.below(6)) }).collect(),
            ),
            _ => (vec![], vec![]),
        };
        let line = format!("SBS {} {} {} {} / {}", len, msgs.join(" "), hex_of_bytes(&tape), rs.join(" "), ws.join(" "));
        let line = line.replace("  ", " ").trim_end().to_string();
        let res = ctx.case(line.clone(), true, ["read-fault-then-more", "write-fault-then-more", "fragmented-sequence", "clean-sequence"][k % 4]);
        // property-level monitor for the fault-free kinds: each reply-bearing message gets the decoding of the next
        // line of the tape (error if undecodable or missing), the others get no reply; everything written, in order
        if k % 4 >= 2 {
            let mut rest: &[u8] = &tape;
            let mut want: Vec<String> = vec![];
            let mut out: Vec<u8> = vec![];
            for m in &msgs {
                out.extend(enc_msg(m));
                if m.starts_with("HE.") || m.starts_with("QS.") || m.starts_with("RO.") {
                    let (l, r) = first_line(rest);
                    rest = r;
                    let d = dec(l);
                    want.push(if let Some(f) = d.strip_prefix("OK ") {
                        let p: Vec<&str> = f.split('.').collect();
                        let mm = crate::eval::eval_case(&format!("F2M {} {} {}", p[0], p[1], p[2]));
                        format!("OK {}", mm.split(' ').next().unwrap())
                    } else {
                        "ER".to_string()
                    });
                } else {
                    want.push("OK N".to_string());
                }
            }
            let wanted = format!("{} | {} | {}", want.join(" ; "), hex_of_bytes(&out), hex_of_bytes(rest));
            ctx.monitor(res == wanted, "C16-serial-exchange", &line, &format!("wanted [{}] got [{}]", &wanted[..wanted.len().min(300)], &res[..res.len().min(300)]));
        }
    }
    // the same offset and length again and again with other contents (a caller refilling one buffer), also back to earlier
    // contents and with other messages in between: each time the bytes written are those of the message given
    for (k, len) in [1usize, 2, 16, 17, 255].into_iter().enumerate() {
        let blocks: Vec<Vec<u8>> = (0..3u8).map(|j| (0..len).map(|i| (i as u8).wrapping_mul(7).wrapping_add(j * 0x55 + k as u8)).collect()).collect();
        for off in [0u16, 16, 0xFFF0] {
            let order: Vec<usize> = vec![0, 1, 1, 0, 2, 0];
            let mut msgs: Vec<String> = order.iter().map(|j| format!("SD.{}.{}", off, hex_of_bytes(&blocks[*j]))).collect();
            msgs.insert(4, "DC.1".to_string());
            let line = format!("SBS {} {} - /", msgs.len(), msgs.join(" "));
            let res = ctx.case(line.clone(), true, "one-buffer-refilled");
            let mut out: Vec<u8> = vec![];
            for m in &msgs {
                out.extend(enc_msg(m));
            }
            let wanted = format!("{} | {} | -", vec!["OK N"; msgs.len()].join(" ; "), hex_of_bytes(&out));
            ctx.monitor(res == wanted, "C16-serial-exchange", &line[..line.len().min(300)], &format!("wanted [{}] got [{}]", &wanted[..wanted.len().min(200)], &res[..res.len().min(200)]));
        }
    }
    // a reply that trickles in: every byte arrives well inside the port's read timeout, the whole line takes more than the
    // 5 s the port was given (15 bytes at 400 ms); it is still the reply.  (6 s of real time: left out where FDX_SKIP_SLOW.)
    if std::env::var("FDX_SKIP_SLOW").is_err() {
        let tape = enc_msg(&format!("RS.{}.PLD", a));
        let line = format!("SBD HE.{} {} 400", a, hex_of_bytes(&tape));
        let res = ctx.case(line.clone(), true, "reply-trickles-in");
        let want = format!("OK RS.{}.PLD | {} | -", a, hex_of_bytes(&enc_msg(&format!("HE.{}", a))));
        ctx.monitor(res == want, "C16-serial-exchange", &line, &format!("wanted [{}] got [{}]", want, res));
    }
    // a long-lived bus: more than 65 536 exchanges (unanswered, unpaced messages), then ordinary ones with replies
    {
        let n = 65_540usize;
        let mut msgs: Vec<String> = (0..n).map(|i| if i % 2 == 0 { format!("PC.{}", a) } else { "DC.2".to_string() }).collect();
        msgs.push(format!("HE.{}", a));
        msgs.push(format!("PC.{}", a));
        msgs.push(format!("QS.{}", a));
        let mut tape = enc_msg(&format!("RS.{}.UNC", a));
        tape.extend(enc_msg(&format!("RS.{}.PLD", a)));
        let line = format!("SBS {} {} {} /", msgs.len(), msgs.join(" "), hex_of_bytes(&tape));
        let res = ctx.case(line, true, "long-lived-bus");
        let parts: Vec<&str> = res.split(" | ").collect();
        let outs: Vec<&str> = parts[0].split(" ; ").collect();
        let ok = parts.len() == 3
            && outs.len() == n + 3
            && outs[..n].iter().all(|o| *o == "OK N")
            && outs[n] == format!("OK RS.{}.UNC", a)
            && outs[n + 1] == "OK N"
            && outs[n + 2] == format!("OK RS.{}.PLD", a)
            && parts[2] == "-";
        let first_bad = outs.iter().position(|o| !o.starts_with("OK")).map(|i| format!("exchange #{} gave {}", i + 1, outs[i])).unwrap_or_default();
        ctx.monitor(ok, "C16-serial-exchange", &format!("SBS <{} unanswered messages, then hello / pixels-complete / query> on one bus", n), &first_bad);
    }
}

fn gen_c16(ctx: &mut Ctx) {
    let mut rng = Rng::new(ctx.seed, 16);
    let thorough = ctx.tier_thorough;
    let addrs: Vec<u16> = if thorough { vec![0, 3, 0x7F, 0x100, 0xFFFF] } else { vec![3, 0xFFFF] };
    let msgs = all_kind_samples(&mut rng, &addrs);
    let tapes = reply_tapes(&mut rng, 3);
    for (mi, m) in msgs.iter().enumerate() {
        for (ti, (tape, class)) in tapes.iter().enumerate() {
            if !thorough && (mi + ti) % 3 != 0 && !(m.starts_with("HE.") && mi < 40) {
                continue;
            }
            sb_case(ctx, m, tape, &[], &[], class);
        }
        // failure injected at each port operation
        let tape = &tapes[mi % tapes.len()].0;
        let flen = enc_msg(m).len();
        for at in [0usize, 1, 2, flen / 2, flen - 1] {
            let mut ws: Vec<String> = (0..at).map(|_| "A0".to_string()).collect();
            ws.push(if at % 2 == 0 { WFAIL_KINDS[(mi + at / 2) % WFAIL_KINDS.len()] } else { "Z" }.to_string());
            sb_case(ctx, m, tape, &[], &ws, "write-failure");
        }
        for at in [0usize, 1, 5, tape.len().saturating_sub(1)] {
            let mut rs: Vec<String> = (0..at).map(|i| if i % 4 == 3 { "I".to_string() } else { "D0".to_string() }).collect();
            rs.push(RFAIL_KINDS[(mi + at) % RFAIL_KINDS.len()].to_string());
            sb_case(ctx, m, tape, &rs, &[], "read-failure");
        }
        // fragmentation + interrupts without failure
        let rs: Vec<String> = (0..rng.below(12)).map(|_| if rng.chance(1, 4) { "I".to_string() } else { format!("D{}", rng.below(6)) }).collect();
        let ws: Vec<String> = (0..rng.below(8)).map(|_| if rng.chance(1, 4) { "I".to_string() } else { format!("A{}", rng.below(6)) }).collect();
        sb_case(ctx, m, tape, &rs, &ws, "fragmented");
    }
    // a data chunk of every length 0..=255 sent through the bus: exactly its frame is written, nothing is read
    for len in 0..=255usize {
        let d = rng.bytes(len);
        sb_case(ctx, &format!("SD.{}.{}", 16 * len, hex_of_bytes(&d)), &enc_msg("RS.3.PLD"), &[], &[], "every-data-length");
    }
    // an in-progress report that trickles in (each read takes 10 / 30 ms: the line takes longer than the 100 ms pause that
    // follows it), and a final report likewise
    for st in ["PLP", "PSP", "PLD", "PSH"] {
        for ms in [10u32, 30] {
            let tape = enc_msg(&format!("RS.3.{}", st));
            let line = format!("SBD QS.3 {} {}", hex_of_bytes(&tape), ms);
            let res = ctx.case(line.clone(), true, "report-trickles-in");
            let want = format!("OK RS.3.{} | {} | -", st, hex_of_bytes(&enc_msg("QS.3")));
            ctx.monitor(res == want, "C16-serial-exchange", &line, &format!("wanted [{}] got [{}]", want, res));
        }
    }
    // the reply's text followed by every kind of line ending and stray byte, then another frame
    for reply in ["RS.3.PLD", "AO.3.RPX"] {
        let mut text = enc_msg(reply);
        text.truncate(text.len() - 2);
        for term in line_endings() {
            let mut tape = text.clone();
            tape.extend_from_slice(&term);
            tape.extend(enc_msg("RS.3.UNC"));
            sb_case(ctx, "QS.3", &tape, &[], &[], "line-endings");
        }
    }
    // the reply line is byte-identical to the request just written (an echo), followed by a genuine reply
    for m in [format!("HE.{}", 3), format!("QS.{}", 0xFFFFu16), format!("RO.{}.RPX", 3), format!("RO.{}.FRS", 0x100)] {
        let mut tape = enc_msg(&m);
        tape.extend(enc_msg("RS.3.PLD"));
        sb_case(ctx, &m, &tape, &[], &[], "echo-of-the-request");
        sb_case(ctx, &m, &enc_msg(&m), &[], &[], "echo-of-the-request");
    }
    gen_c16_sequences(ctx, &mut rng);
}

// ---------------------------------------------------------------------------------------------

fn small_page(id: u8, w: u32, h: u32, rng: &mut Rng) -> String {
    let total = ((4 + w as usize * ((h as usize + 7) / 8) + 15) / 16) * 16;
    let mut b = rng.bytes(total);
    b[0] = id;
    format!("{}.{}.{}", w, h, hex_of_bytes(&b))
}

fn gen_c17(ctx: &mut Ctx) {
    let mut rng = Rng::new(ctx.seed, 17);
    let thorough = ctx.tier_thorough;
    // the paced path sleeps 30 ms per chunk: keep transfers small
    let types: Vec<usize> = if thorough { (0..11).collect() } else { vec![5, 3, 2] };
    let mut n = 0;
    for &t in &types {
        for style in ["M", "A"] {
            if !thorough && n >= 4 {
                break;
            }
            n += 1;
            // (the first conversations always include addresses whose high byte is not zero, whatever the seed)
            let own = [0xFFFFu16, 3, 0x0103, 0x7F][(n - 1) % 4];
            let _ = rng.pick(&[3u16, 0x7F, 0xFFFF]);
            let (w, h) = crate::gen::SIGN_SIZES[t];
            let small = (w * h) <= 700;
            let np = if small { 1 + rng.below(2) as usize } else { 1 };
            let pages: Vec<String> = (0..np).map(|k| small_page(k as u8 + 1, w, h, &mut rng)).collect();
            let seqs: Vec<Vec<String>> = vec![
                vec![format!("CFG.{}.{}", own, t), format!("SND.{}.{}", own, pages.join("+")), format!("SHW.{}.50", own), format!("LNX.{}.50", own), format!("BYE.{}", own), format!("CIN.{}.{}", own, t)],
                vec![format!("CIN.{}.{}", own, t), format!("SND.{}.-", own), format!("CFG.{}.{}", own, (t + 1) % 11), format!("SHW.{}.50", own)],
                vec![format!("SND.{}.{}", own, pages[0]), format!("SHW.{}.50", own), format!("CFG.{}.{}", own, t), format!("LNX.{}.50", own)],
                vec![format!("CFG.{}.{}", own ^ 1, t), format!("BYE.{}", own ^ 1), format!("SHW.{}.50", own ^ 1)],
                // a page source that itself talks over the wire while send_pages drains it (the other sign of the bus is
                // shut down, this sign is polled)
                vec![format!("CFG.{}.{}", own, t), format!("SNN.{}.BYE:{}~LNX:{}:5.{}", own, own.wrapping_add(7), own, pages.join("+")), format!("SHW.{}.50", own)],
            ];
            for (si, ops) in seqs.iter().enumerate() {
                if !thorough && si >= 2 && si != 4 && n > 2 {
                    continue;
                }
                let prior: Vec<String> = match si {
                    2 => vec![format!("RO.{}.RCF", own), format!("SD.0.{}", hex_of_bytes(SIGN_TYPES[t].to_bytes())), "DC.1".to_string()],
                    _ => vec![],
                };
                let signs = format!("2 {} {} {} {}", own, style, own.wrapping_add(7), if style == "M" { "A" } else { "M" });
                let wb = format!("WB {} {} | {}", signs, prior.join(" "), ops.join(" ")).replace("  ", " ");
                let cl = format!("CL {} {} | {}", signs, prior.join(" "), ops.join(" ")).replace("  ", " ");
                // the same conversation over streams that fragment every read and write and interrupt them
                let wbs = format!("WBS{}", &wb[2..]);
                let rws = ctx.case(wbs.clone(), true, "wire-fragmented");
                let rw = ctx.case(wb.clone(), true, "wire");
                ctx.monitor(rws == rw, "C17-transparent", &wbs, "the fragmented wire behaves differently from the plain wire");
                let rd = ctx.case(cl.clone(), true, "direct");
                // transparency monitor: success together, same sign observables either way
                let tw: Vec<&str> = rw.split(" # ").next().unwrap().split(' ').filter(|s| !s.is_empty()).collect();
                let td: Vec<&str> = rd.split(" # ").next().unwrap().split(' ').filter(|s| !s.is_empty()).collect();
                let mut verdict: Option<String> = None;
                for (k, (a, b)) in tw.iter().zip(td.iter()).enumerate() {
                    let (oa, sa) = a.split_once('/').unwrap_or((a, ""));
                    let (ob, sb) = b.split_once('/').unwrap_or((b, ""));
                    let succ_a = oa.starts_with("DONE");
                    let succ_b = ob.starts_with("DONE");
                    if succ_a != succ_b || (succ_a && oa != ob) {
                        verdict = Some(format!("operation {}: wire {} vs direct {}", k, oa, ob));
                        break;
                    }
                    if sa != sb {
                        verdict = Some(format!("operation {}: signs differ: wire {} vs direct {}", k, sa, sb));
                        break;
                    }
                }
                if !rw.ends_with("inbox=-") {
                    verdict = Some("stale bytes left in the controller's receive pipe".to_string());
                }
                ctx.monitor(verdict.is_none(), "C17-transparent", &wb, verdict.as_deref().unwrap_or(""));
            }
        }
    }
    // the bridge alone: known, unknown and invalid lines; reply written back iff the bus replied
    let mut tapes: Vec<(Vec<u8>, &str)> = vec![
        (enc_msg("HE.3"), "hello"),
        (enc_msg("QS.5"), "absent-address"),
        (enc_msg("RO.3.RCF"), "request"),
        (enc_msg("RO.3.SLP"), "illegal-request"),
        (enc_msg("SD.0.0102"), "data"),
        (enc_msg("DC.1"), "count"),
        (enc(3, 9, &[1, 2, 3], true), "unknown-frame"),
        (enc(3, 0, &[7], true), "one-byte-chunk"),
        (b":00\r\n".to_vec(), "invalid"),
        (b"\r\n".to_vec(), "invalid"),
        (vec![], "empty"),
        ([b"\r\n".to_vec(), enc_msg("HE.3")].concat(), "invalid-then-valid"),
        ([b"\n".to_vec(), enc_msg("RO.3.RCF")].concat(), "invalid-then-valid"),
        ([b" \r\n".to_vec(), enc_msg("QS.3")].concat(), "invalid-then-valid"),
        ([b"\t\n".to_vec(), enc_msg("HE.3")].concat(), "invalid-then-valid"),
        ([b"\r\n\r\n".to_vec(), enc_msg("HE.3")].concat(), "invalid-then-valid"),
        ([b":00\r\n".to_vec(), enc_msg("RO.3.RCF")].concat(), "invalid-then-valid"),
        ([b"#comment\r\n".to_vec(), enc_msg("HE.3")].concat(), "invalid-then-valid"),
        ([enc(3, 2, &(0..255).collect::<Vec<u8>>(), true), enc_msg("HE.3")].concat(), "max-length-then-valid"),
        // one over-long undecodable line whose tail, taken alone, would be a valid frame (a reader that gives up after
        // the longest legal line would serve that tail to the next call)
        ([vec![b'7'; 523], enc_msg("RO.3.RCF")].concat(), "invalid-then-valid"),
        ([vec![b':'; 524], enc_msg("HE.3")].concat(), "invalid-then-valid"),
        ([vec![b'A'; 1046], enc_msg("RO.3.RCF")].concat(), "invalid-then-valid"),
        ([vec![b'0'; 521], enc_msg("QS.3")].concat(), "invalid-then-valid"),
        // more than 255 data bytes with the length byte equal to the count modulo 256 and a consistent checksum
        ({
            let mut r = Rng::new(17, 171);
            let mut v = crate::gen::oversize_strings(&mut r)[0].clone();
            v.extend_from_slice(b"\r\n");
            v.extend(enc_msg("HE.3"));
            v
        }, "invalid-then-valid"),
        ({
            let mut r = Rng::new(18, 171);
            let mut v = crate::gen::oversize_strings(&mut r)[4].clone();
            v.extend_from_slice(b"\r\n");
            v.extend(enc_msg("RO.3.RCF"));
            v
        }, "invalid-then-valid"),
        ({
            let mut v = enc_msg("HE.3");
            let n = v.len();
            v[n - 3] ^= 1;
            v
        }, "bad-checksum"),
        ({
            let mut v = enc_msg("HE.3");
            v.extend(enc_msg("RO.3.RCF"));
            v.extend(enc_msg("QS.3"));
            v
        }, "three-lines"),
    ];
    // a complete, checksum-correct frame text followed by every kind of line ending and stray byte, then a valid frame
    for m in ["BYE", "HE.3", "RO.3.RCF"] {
        let text = if m == "BYE" { enc(3, 2, &[0x55], false) } else { let mut v = enc_msg(m); v.truncate(v.len() - 2); v };
        for term in line_endings() {
            let mut v = text.clone();
            v.extend_from_slice(&term);
            if !v.ends_with(b"\n") {
                continue;
            }
            let valid = crate::gen::reference_parse(first_line(&v).0).starts_with("OK ");
            v.extend(enc_msg("QS.3"));
            tapes.push((v, if valid { "valid-then-valid" } else { "invalid-then-valid" }));
        }
    }
    // a valid line in which the first digit of a pair (a '0') is replaced by a sign or a blank: "+0" is not a hex pair
    for m in ["RO.3.SRS", "HE.3", "SD.0.00010203"] {
        let good = enc_msg(m);
        for pos in (1..good.len() - 2).step_by(2) {
            if good[pos] != b'0' {
                continue;
            }
            for c in [b'+', b'-', b' '] {
                let mut v = good.clone();
                v[pos] = c;
                tapes.push((v, "sign-in-hex-pair"));
            }
        }
    }
    for (tape, class) in &tapes {
        for ws in [vec![], vec!["A0".to_string(), "I".to_string(), "A3".to_string()], vec!["F".to_string()]] {
          for steps in if *class == "three-lines" { vec![3] } else if class.ends_with("-then-valid") { vec![1, 2] } else { vec![1] } {
            let line = format!("OD 1 3 M | | {} {} {}", hex_of_bytes(tape), steps, ws.join(" "));
            let line = line.trim_end().to_string();
            let res = ctx.case(line.clone(), true, class);
            let mut verdict: Option<String> = None;
            if class.ends_with("-then-valid") && steps == 1 {
                // exactly one line is accounted for per call: the rest of the tape is still in the port
                let (_, rest) = first_line(tape);
                let parts: Vec<&str> = res.split(" | ").collect();
                if parts.len() < 3 || bytes_of_hex(parts[2].split(' ').next().unwrap_or("-")) != rest {
                    verdict = Some("the bridge did not consume exactly one line".to_string());
                }
                if class.starts_with("invalid") && (!res.starts_with("COMM fwd=-")) {
                    verdict = Some("an undecodable line must be a communication error that does not touch the bus".to_string());
                }
            }
            if class.ends_with("-then-valid") && steps == 2 {
                // the line after the bad (or maximum-length) one is a valid frame: the second call forwards it
                let outs: Vec<&str> = res.split(" | ").next().unwrap_or("").split(" ; ").collect();
                let write_fails = ws.iter().any(|w| w.starts_with('F') || w == "Z");
                let (_, rest) = first_line(tape);
                let (second, _) = first_line(rest);
                let second_valid = crate::gen::reference_parse(second).starts_with("OK ");
                if !second_valid {
                    if outs.len() != 2 || !outs[1].starts_with("COMM fwd=-") {
                        verdict = Some("an undecodable line must be a communication error that does not touch the bus".to_string());
                    }
                } else if outs.len() != 2 || outs[1].ends_with("fwd=-") || !outs[1].contains("fwd=") || (!write_fails && !outs[1].starts_with("OK fwd=")) {
                    verdict = Some(format!("the valid line after the first one was not forwarded: {:?}", outs));
                }
                if class.starts_with("invalid") && !outs[0].starts_with("COMM fwd=-") {
                    verdict = Some("an undecodable line must be a communication error that does not touch the bus".to_string());
                }
            }
            if (class.starts_with("invalid") && !class.ends_with("-then-valid")) || *class == "empty" || *class == "bad-checksum" || *class == "sign-in-hex-pair" {
                if !res.starts_with("COMM fwd=-") || !res.ends_with("UNC.-.0.cbf29ce484222325") {
                    verdict = Some("an undecodable line must be a communication error that does not touch the bus".to_string());
                }
            }
            ctx.monitor(verdict.is_none(), "C17-bridge", &line, verdict.as_deref().unwrap_or(""));
          }
        }
    }
    // the bridge in front of a bus that may answer ANY message (a sign never answers data, counts, pixels-complete,
    // goodbye or unknown frames, another bus might): a frame is written back exactly when the bus answered
    {
        let a = 3u16;
        let requests = ["HE.3", "QS.3", "RO.3.RCF", "SD.0.0102", "SD.16.-", "DC.1", "PC.3", "GB.3", "UN.3.9.01", "UN.3.2.FF00", "RS.3.PLD", "AO.3.RPX"];
        let answers = ["N".to_string(), format!("RS.{}.PLD", a), format!("AO.{}.RCF", a), "DC.7".to_string(), format!("UN.{}.9.0102", a), format!("HE.{}", a)];
        let mut k = 0usize;
        for (ri, rq) in requests.iter().enumerate() {
            for (ai, ans) in answers.iter().enumerate() {
                // single line, and the same line after a blank line and before another request (3 steps)
                for shape in 0..4 {
                    let rq2 = requests[(ri + 5) % requests.len()];
                    let (a1, a3) = (answers[(ai + 1) % answers.len()].clone(), answers[(ai + 3) % answers.len()].clone());
                    let (tape, script): (Vec<u8>, Vec<String>) = match shape {
                        0 => (enc_msg(rq), vec![ans.clone()]),
                        1 => ([b"\r\n".to_vec(), enc_msg(rq), enc_msg(rq2)].concat(), vec![a1.clone(), ans.clone(), a3.clone()]),
                        // the request, then a frame identical to the answer just written back (an echo on a two-wire line,
                        // or simply a peer saying the same thing), then another request: three frames, three forwards
                        2 => {
                            if ans == "N" {
                                continue;
                            }
                            ([enc_msg(rq), enc_msg(ans), enc_msg(rq2)].concat(), vec![ans.clone(), "N".to_string(), a3.clone()])
                        }
                        // the last frame before the end of the stream lacks its CR LF (the terminator is optional)
                        _ => {
                            let mut t = enc_msg(rq);
                            t.truncate(t.len() - 2);
                            (t, vec![ans.clone()])
                        }
                    };
                    k += 1;
                    let ws: Vec<String> = if k % 5 == 0 { vec!["A0".into(), "I".into(), "A2".into()] } else { vec![] };
                    let line = format!("ODS {} {} / {}", hex_of_bytes(&tape), script.join(" "), ws.join(" ")).trim_end().to_string();
                    let res = ctx.case(line.clone(), true, "bridge-over-scripted-bus");
                    let written = |xs: &[&String]| -> String {
                        let v: Vec<u8> = xs.iter().filter(|x| x.as_str() != "N").flat_map(|x| enc_msg(x)).collect();
                        if v.is_empty() { "-".to_string() } else { hex_of_bytes(&v) }
                    };
                    let want = match shape {
                        0 | 3 => format!("OK fwd={} | {} | -", rq, written(&[ans])),
                        1 => format!("COMM fwd=- ; OK fwd={} ; OK fwd={} | {} | -", rq, rq2, written(&[ans, &a3])),
                        _ => format!("OK fwd={} ; OK fwd={} ; OK fwd={} | {} | -", rq, ans, rq2, written(&[ans, &a3])),
                    };
                    ctx.monitor(res == want, "C17-bridge", &line, &format!("wanted [{}] got [{}]", want, res));
                }
            }
        }
    }
    // bridge after some traffic
    let line = format!("OD 2 3 M 5 A | RO.3.RCF | {} 2", hex_of_bytes(&[enc_msg(&format!("SD.0.{}", hex_of_bytes(SIGN_TYPES[2].to_bytes()))), enc_msg("DC.1")].concat()));
    ctx.case(line, true, "bridge-after-traffic");
}

// ---------------------------------------------------------------------------------------------

fn gen_c18(ctx: &mut Ctx) {
    let mut rng = Rng::new(ctx.seed, 18);
    let a = 3u16;
    let mut cases: Vec<(String, Vec<u8>)> = vec![];
    // every message kind; reply tapes: every state, every ack
    for m in ["PC.3", "GB.3", "DC.2", "RS.3.PLP", "AO.3.RCF", "UN.3.9.01", "UN.3.2.01", "UN.3.3.A3"] {
        cases.push((m.to_string(), vec![]));
    }
    for len in [0usize, 1, 16] {
        cases.push((format!("SD.{}.{}", len * 16, hex_of_bytes(&rng.bytes(len))), vec![]));
    }
    for (_, st) in STATES.iter() {
        cases.push((format!("QS.{}", a), enc_msg(&format!("RS.{}.{}", a, st))));
    }
    for (_, st) in STATES.iter().take(if ctx.tier_thorough { 13 } else { 0 }) {
        cases.push((format!("HE.{}", a), enc_msg(&format!("RS.{}.{}", a ^ 0xFF, st))));
    }
    cases.push((format!("HE.{}", a), enc_msg(&format!("RS.{}.PSP", 0xFFFFu16))));
    for (_, op) in OPS.iter() {
        cases.push((format!("RO.{}.{}", a, op), enc_msg(&format!("AO.{}.{}", a, op))));
    }
    cases.push((format!("QS.{}", a), enc(a, 9, &[1], true)));
    cases.push((format!("QS.{}", a), b"garbage\r\n".to_vec()));
    // replies that merely begin like an in-progress report: two or more data bytes, another type, another case of hex
    for (t, d) in [(4u8, vec![0x13u8, 0x00]), (4, vec![0x11, 0x13]), (4, vec![0x13; 16]), (5, vec![0x13]), (3, vec![0x11]), (4, vec![0x13, 0x11, 0x13])] {
        cases.push((format!("QS.{}", a), enc(a, t, &d, true)));
    }
    cases.push((format!("RO.{}.SLP", a), enc(a, 4, &[0x11, 0x00], true)));
    // an echo of the request (a two-wire line with local echo) ahead of an in-progress report: the reply of this exchange
    // is the echo (not paced); the report stays in the port for the next exchange
    cases.push((format!("QS.{}", a), [enc_msg(&format!("QS.{}", a)), enc_msg(&format!("RS.{}.PLP", a))].concat()));
    cases.push((format!("RO.{}.SLP", a), [enc_msg(&format!("RO.{}.SLP", a)), enc_msg(&format!("RS.{}.PSP", a))].concat()));
    cases.push((format!("HE.{}", a), [enc_msg("SD.16.0102"), enc_msg(&format!("HE.{}", a)), enc_msg(&format!("RS.{}.PSP", a))].concat()));
    // the same exchanges on a port whose transfers take real time (paced kinds and a few unpaced ones)
    let mut timed: Vec<(String, Vec<u8>, bool)> = cases.iter().map(|(m, t)| (m.clone(), t.clone(), false)).collect();
    for (m, tape) in &cases {
        let paced_reply = tape.len() > 10 && { let d = dec(first_line(tape).0); d.ends_with(".13") || d.ends_with(".11") };
        if m.starts_with("SD.") || paced_reply || m == "GB.3" || m == "DC.2" || (m.starts_with("QS.") && dec(tape).ends_with(".10")) || m.starts_with("RO.3.RPX") {
            timed.push((m.clone(), tape.clone(), true));
        }
    }
    for (m, tape, slow) in timed {
        let line = format!("TM {} {}{}", m, hex_of_bytes(&tape), if slow { " slow" } else { "" });
        let res = ctx.case(line.clone(), true, &m[..2]);
        // property-level monitor, independent of the model
        let want_send = m.starts_with("SD.") as u8;
        let d = dec(first_line(&tape).0);
        let want_recv = (d.starts_with("OK ") && {
            let p: Vec<&str> = d[3..].split('.').collect();
            p[1] == "4" && (p[2] == "13" || p[2] == "11")
        } && (m.starts_with("QS.") || m.starts_with("HE.") || m.starts_with("RO."))) as u8;
        let want = format!("send={} recv={} reply=", want_send, want_recv);
        ctx.monitor(res.starts_with(&want), "C18-pacing", &line, &format!("wanted [{}...] got [{}]", want, res));
    }
    // reads that are interrupted, fragmented or fail before an in-progress report arrives: an interrupted or fragmented
    // read is still that reply (paced); a failed read is an error, with nothing sent again
    for (mi, m) in [format!("HE.{}", a), format!("QS.{}", a), format!("RO.{}.SLP", a)].iter().enumerate() {
        for (si, st) in ["PLP", "PSP"].iter().enumerate() {
            for (ri, rs) in [vec!["FT"], vec!["D2", "FT"], vec!["I", "D0"], vec!["FW"], vec!["I", "I", "D3", "I"], vec!["D0", "FE"]].iter().enumerate() {
                if !ctx.tier_thorough && (mi + si + ri) % 3 != 0 {
                    continue;
                }
                let tape = [enc_msg(&format!("RS.{}.{}", a, st)), enc_msg(&format!("RS.{}.{}", a, st))].concat();
                let line = format!("TM {} {} {} /", m, hex_of_bytes(&tape), rs.join(" "));
                let res = ctx.case(line.clone(), true, "faulty-reads-before-a-report");
                let fails = rs.iter().any(|r| r.starts_with('F'));
                let want = if fails { "send=0 recv=0 reply=ER".to_string() } else { format!("send=0 recv=1 reply=RS.{}.{}", a, st) };
                ctx.monitor(res.starts_with(&want), "C18-pacing", &line, &format!("wanted [{}...] got [{}]", want, res));
            }
        }
    }
    // a long busy period: several hundred in-progress reports in a row on one bus, every one of them paced; and a run of
    // other reports, none of them paced.  (Takes n x 100 ms of real time: left out where FDX_SKIP_SLOW is set.)
    if std::env::var("FDX_SKIP_SLOW").is_err() {
        for (n, st, all) in [(if ctx.tier_thorough { 520usize } else { 260 }, "PSP", true), (40, "PLP", true), (300, "PLD", false)] {
            let line = format!("TMS {} {}", n, st);
            let res = ctx.case(line.clone(), true, "run-of-reports");
            let want = if all { format!("n={} paced={} first-unpaced=-", n, n) } else { format!("n={} paced=0 first-unpaced=1", n) };
            ctx.monitor(res == want, "C18-pacing", &line, &format!("wanted [{}] got [{}]", want, res));
        }
    }
}

// ---------------------------------------------------------------------------------------------

fn gen_c20(ctx: &mut Ctx) {
    let bauds: Vec<String> = (0..11).map(|i| i.to_string()).chain(["O1".to_string(), "O19200".to_string(), "O4000000".to_string()]).collect();
    // which error the refusing device call returns: the constructor must hand back THAT error whatever its kind
    // (N NoDevice, V InvalidInput, Io: I Interrupted, W WouldBlock, T TimedOut, O Other, P PermissionDenied)
    let kinds = ["N", "V", "I", "W", "T", "O", "P", "X", "F"];
    let mut fails: Vec<String> = vec!["none".to_string()];
    for f in ["read", "baud", "write", "timeout"] {
        for k in kinds {
            fails.push(format!("{}:{}", f, k));
        }
    }
    let mut n = 0usize;
    for baud in &bauds {
        for cs in ["5", "6", "7", "8"] {
            for par in ["N", "O", "E"] {
                for stop in ["1", "2"] {
                    for flow in ["N", "S", "H"] {
                        n += 1;
                        for (fi, fail) in fails.iter().enumerate() {
                            // every prior setting with no failure and with every failure point; the error kinds rotate
                            // over the settings product (each kind x point meets >= 100 prior settings); thorough: all
                            if fi > 0 && !ctx.tier_thorough && (fi - 1) % kinds.len() != n % kinds.len() {
                                continue;
                            }
                            for ctor in ["CFG.1.234000000", "BUS", "ODK"] {
                                pt_case(ctx, &format!("PT {} {} {} {} {} {} {}", baud, cs, par, stop, flow, fail, ctor), fail, ctor);
                            }
                        }
                    }
                }
            }
        }
    }
    // a device that cannot report some of its current settings (the getters return None until the field is set):
    // every subset of unreportable fields over a sample of prior settings, with and without a failing step
    for mask in 1..32u32 {
        for (pi, prior) in [("0", "7", "E", "2", "S"), ("7", "8", "N", "1", "N"), ("O31250", "5", "O", "2", "H"), ("7", "8", "N", "1", "H")].iter().enumerate() {
            let q = |i: u32, s: &str| if mask & (1 << i) != 0 { format!("?{}", s) } else { s.to_string() };
            for fail in ["none", "baud:V", "write:N", "read:X", "timeout:X"] {
                if fail != "none" && (mask as usize + pi) % 3 != 0 {
                    continue;
                }
                for ctor in ["CFG.0.250000000", "BUS", "ODK"] {
                    let line = format!("PT {} {} {} {} {} {} {}", q(0, prior.0), q(1, prior.1), q(2, prior.2), q(3, prior.3), q(4, prior.4), fail, ctor);
                    pt_case(ctx, &line, fail, ctor);
                }
            }
        }
    }
    // the caller's timeout is applied exactly, whatever its size or resolution (configure_port used directly)
    let timeouts: [(u64, u32); 16] = [
        (0, 0), (0, 1), (0, 999), (0, 521_000), (0, 2_500_000), (0, 999_999_999), (1, 0), (1, 1), (5, 0), (10, 0),
        (4_294_967, 295_000_000), (4_294_967, 296_000_000), (4_294_968, 0), (86_400 * 50, 500), (u64::MAX / 1000, 999_999_999),
        (u64::MAX, 999_999_999),
    ];
    for (i, (secs, nanos)) in timeouts.iter().enumerate() {
        let prior = [("0", "7", "E", "2", "S"), ("7", "8", "N", "1", "N"), ("O31250", "5", "O", "2", "H")][i % 3];
        for fail in ["none", "timeout:V", "write:N"] {
            let ctor = format!("CFG.{}.{}", secs, nanos);
            pt_case(ctx, &format!("PT {} {} {} {} {} {} {}", prior.0, prior.1, prior.2, prior.3, prior.4, fail, ctor), fail, &ctor);
        }
    }
    // a device that takes no read timeout above some length (the 2^31 - 1 ms of a 32-bit millisecond counter, 65 535 ms,
    // 5 s, 10 s less a nanosecond): asking for more is refused every time, asking for that much or less is honoured
    for (li, limit) in [2_147_483_647_000_000u64, 65_535_000_000, 5_000_000_000, 9_999_999_999, 4_999_999_999, 255_000_000_000, 0].iter().enumerate() {
        for kind in ["V", "N", "O", "X"] {
            let fail = format!("above{}:{}", limit, kind);
            let prior = [("0", "7", "E", "2", "S"), ("7", "8", "N", "1", "N"), ("O31250", "5", "O", "2", "H")][li % 3];
            let mut ctors: Vec<String> = vec!["BUS".to_string(), "ODK".to_string()];
            for ns in [*limit as u128, *limit as u128 + 1, (*limit as u128).saturating_sub(1), *limit as u128 + 1_000_000, 2 * *limit as u128 + 7, 0, u64::MAX as u128 * 1_000_000_000 + 999_999_999] {
                ctors.push(format!("CFG.{}.{}", ns / 1_000_000_000, ns % 1_000_000_000));
            }
            for ctor in ctors {
                pt_case(ctx, &format!("PT {} {} {} {} {} {} {}", prior.0, prior.1, prior.2, prior.3, prior.4, fail, ctor), &fail, &ctor);
            }
        }
    }
    // devices whose read_settings keeps answering with the settings they were opened with, and devices whose write_settings
    // forgets the read timeout: one read-modify-write of the settings followed by the timeout is right on both
    for flavour in ["s", "w", "sw"] {
        for (pi, prior) in [("0", "7", "E", "2", "S"), ("7", "8", "N", "1", "N"), ("O31250", "5", "O", "2", "H"), ("7", "5", "N", "1", "H"), ("10", "8", "O", "1", "N")].iter().enumerate() {
            for fail in ["none", "timeout:V", "write:N", "baud:V"] {
                if fail != "none" && pi % 2 == 1 {
                    continue;
                }
                for ctor in ["CFG.2.500000000", "BUS", "ODK"] {
                    let token = format!("{}~{}", fail, flavour);
                    pt_case(ctx, &format!("PT {} {} {} {} {} {} {}", prior.0, prior.1, prior.2, prior.3, prior.4, token, ctor), fail, ctor);
                }
            }
        }
    }
    ctx.notes.insert("exhaustive".into(), "full product of 14 bauds x 4 char sizes x 3 parities x 2 stop bits x 3 flow controls x (no failure + 4 failure points) x 3 constructors; 9 error kinds per failure point (rotating over the settings in the quick tier, all in thorough); 16 timeouts from 0 ns to Duration::MAX".into());
}

fn pt_case(ctx: &mut Ctx, line: &str, fail: &str, ctor: &str) {
    let res = ctx.case(line.to_string(), true, fail.split(':').next().unwrap());
    let asked: u128 = {
        let p: Vec<&str> = ctor.split('.').collect();
        match p[0] {
            "BUS" => 5_000_000_000,
            "ODK" => 10_000_000_000,
            _ => p[1].parse::<u128>().unwrap() * 1_000_000_000 + p[2].parse::<u128>().unwrap(),
        }
    };
    let limit: Option<u128> = fail.split(':').next().unwrap().strip_prefix("above").map(|n| n.parse().unwrap());
    let want = if fail == "none" || limit.map(|l| asked <= l).unwrap_or(false) {
        let p: Vec<&str> = ctor.split('.').collect();
        format!("OK 7 8 N 1 N {}", match p[0] {
            "BUS" => "5000000000".to_string(),
            "ODK" => "10000000000".to_string(),
            _ => (p[1].parse::<u128>().unwrap() * 1_000_000_000 + p[2].parse::<u128>().unwrap()).to_string(),
        })
    } else if limit.is_some() {
        "ER timeout".to_string()
    } else {
        format!("ER {}", fail.split(':').next().unwrap())
    };
    ctx.monitor(res == want, "C20-port-setup", line, &res);
}
