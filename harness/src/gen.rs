//! Case generators and model-free monitors, one per property.
use crate::proto::*;
use crate::rng::Rng;
use crate::Ctx;

pub fn generate(prop: &str, ctx: &mut Ctx) {
    match prop {
        "C01" => gen_c01(ctx),
        "C02" => gen_c02(ctx),
        "C03" => gen_c03(ctx),
        "C04" => gen_c04(ctx),
        "C05" => gen_c05(ctx),
        "C06" => gen_c06(ctx),
        "C07" => gen_c07(ctx),
        "C19" => gen_c19(ctx),
        _ => crate::gen_sm::generate_sm(prop, ctx),
    }
}

const ADDRS: [u16; 12] = [0, 1, 3, 0x7F, 0x80, 0xFF, 0x100, 0x1234, 0x7FFF, 0x8000, 0xFF00, 0xFFFF];

fn hexval(c: u8) -> Option<u8> {
    match c {
        b'0'..=b'9' => Some(c - 48),
        b'A'..=b'F' => Some(c - 55),
        b'a'..=b'f' => Some(c - 87),
        _ => None,
    }
}

/// The documented shape of an encoded frame, checked without reference to the model.
/// Returns None when `enc` is exactly the documented encoding of (a, t, d).
fn shape_violation(enc: &[u8], a: u16, t: u8, d: &[u8]) -> Option<String> {
    if enc.first() != Some(&b':') {
        return Some("no leading colon".into());
    }
    let body = &enc[1..];
    if body.len() != 2 * (d.len() + 5) {
        return Some(format!("length {} != {}", body.len(), 2 * (d.len() + 5)));
    }
    let mut bytes = vec![];
    for pair in body.chunks(2) {
        for c in pair {
            if !(c.is_ascii_digit() || (b'A'..=b'F').contains(c)) {
                return Some(format!("non upper-case hex char {}", c));
            }
        }
        bytes.push(16 * hexval(pair[0]).unwrap() + hexval(pair[1]).unwrap());
    }
    let mut want = vec![d.len() as u8, (a >> 8) as u8, (a & 0xFF) as u8, t];
    want.extend_from_slice(d);
    if bytes[..bytes.len() - 1] != want[..] {
        return Some("fields differ from length/address/type/data".into());
    }
    let sum: u32 = bytes.iter().map(|b| *b as u32).sum();
    if sum % 256 != 0 {
        return Some(format!("bytes sum to {} mod 256", sum % 256));
    }
    None
}

/// Data blocks with runs of one repeated byte: whole blocks of one value, and runs of 2..=24 equal bytes at every alignment
/// inside otherwise random data (what run-length or word-at-a-time encoders treat specially).
pub fn run_blocks(rng: &mut Rng, thorough: bool) -> Vec<Vec<u8>> {
    let mut out = vec![];
    for fill in [0x7Fu8, 0x10, 0xA5, 0x01, 0xFE, 0x0F, 0xF0] {
        for len in [2usize, 4, 8, 12, 16, 20, 24, 32, 64, 255] {
            out.push(vec![fill; len]);
        }
    }
    for k in 0..(if thorough { 400 } else { 96 }) {
        let fill = [0x7Fu8, 0x10, 0xA5, 0x3C, 0xC3, 0x12][k % 6];
        let pre = k % 17;
        let run = 2 + (k / 3) % 23;
        let post = (k / 7) % 19;
        let mut d = rng.bytes(pre);
        d.extend(vec![fill; run]);
        d.extend(rng.bytes(post));
        out.push(d);
    }
    out
}

fn rt_case(ctx: &mut Ctx, a: u16, t: u8, d: &[u8], borrowed: bool, class: &str) {
    let line = format!("{} {} {} {}", if borrowed { "RTB" } else { "RT" }, a, t, hex_of_bytes(d));
    let res = ctx.case(line.clone(), true, class);
    // monitor: shape, LRC, CRLF form, and decode(encode f) = f for both encodings
    let parts: Vec<&str> = res.split(" | ").collect();
    let mut ok = parts.len() == 3;
    let mut detail = String::new();
    if ok {
        let encs: Vec<&str> = parts[0].split(' ').collect();
        let enc = bytes_of_hex(encs[0]);
        let enc_nl = bytes_of_hex(encs.get(1).copied().unwrap_or("-"));
        if let Some(v) = shape_violation(&enc, a, t, d) {
            ok = false;
            detail = v;
        } else if enc_nl.len() != enc.len() + 2 || enc_nl[..enc.len()] != enc[..] || enc_nl[enc.len()..] != [13, 10] {
            ok = false;
            detail = "newline form is not encoding + CRLF".into();
        } else {
            let want = format!("OK {}.{}.{}", a, t, hex_of_bytes(d));
            if parts[1] != want || parts[2] != want {
                ok = false;
                detail = format!("decode gave [{}] / [{}], wanted [{}]", parts[1], parts[2], want);
            }
        }
    } else {
        detail = format!("unexpected result {}", res);
    }
    ctx.monitor(ok, "C01-roundtrip-shape", &line, &detail);
}

fn gen_c01(ctx: &mut Ctx) {
    let mut rng = Rng::new(ctx.seed, 1);
    let per_len = if ctx.tier_thorough { 48 } else { 6 };
    for len in 0..=255usize {
        for k in 0..per_len {
            let a = if k < 3 { *rng.pick(&ADDRS) } else { rng.below(65536) as u16 };
            let t = match k {
                0 => 0,
                1 => 0xFF,
                _ => rng.byte(),
            };
            let d: Vec<u8> = match k % 6 {
                0 => vec![0; len],
                1 => vec![0xFF; len],
                2 => (0..len).map(|i| i as u8).collect(),
                _ => rng.bytes(len),
            };
            rt_case(ctx, a, t, &d, k % 2 == 1, &format!("len{:03}", len / 32 * 32));
        }
    }
    // runs of one repeated byte, as whole blocks and at every alignment inside random data
    for (k, d) in run_blocks(&mut rng, ctx.tier_thorough).into_iter().enumerate() {
        rt_case(ctx, [0u16, 0x0102, 0xFFFF, 0x7F7F][k % 4], [0u8, 1, 9, 0x7F][k / 4 % 4], &d, k % 2 == 0, "runs-of-one-byte");
    }
    // frames whose bytes add up to as much as a frame can (sum of all encoded bytes just below / at / above 65535)
    for (a, t, len, fill, last) in [(0xFFFFu16, 0xFFu8, 255usize, 0xFFu8, 0xFFu8), (0xFFFF, 0xFF, 254, 0xFF, 0xFF), (0xFFFF, 0xFF, 255, 0xFF, 0x00),
                                    (0xFFFE, 0xFF, 255, 0xFF, 0xFE), (0x00FF, 0x00, 255, 0xFF, 0xFF), (0xFF00, 0xFF, 255, 0xFE, 0xFF), (0, 0, 255, 0xFF, 0xFF)] {
        let mut d = vec![fill; len];
        if let Some(x) = d.last_mut() {
            *x = last;
        }
        rt_case(ctx, a, t, &d, false, "heavy-frame");
        rt_case(ctx, a, t, &d, true, "heavy-frame");
    }
    // a rejected line of each kind must not influence the frames handled after it (decode, then round trips again)
    for (k, bad) in [&b":01007F02FF7E"[..], &b":00007F02007F"[..], &b":01007F02FF7"[..], &b"garbage"[..], &b":01007F02FF7E\r\n"[..], &b":0200000000FE"[..]].iter().enumerate() {
        let line = format!("DEC {}", hex_of_bytes(bad));
        let res = ctx.case(line.clone(), true, "rejected-line-then-more");
        ctx.monitor(res.starts_with("ER "), "C01-roundtrip-shape", &line, &res);
        for j in 0..3usize {
            let len = [1usize, 16, 200][j];
            rt_case(ctx, 0x0102 + k as u16, (k * 16 + j) as u8, &rng.bytes(len), j % 2 == 0, "rejected-line-then-more");
        }
    }
    // frames decoded from lower-case and mixed-case text (the decoder takes either case) and encoded again: the encoding
    // is the documented upper-case one, whatever the frame was decoded from
    for (k, len) in [0usize, 1, 2, 6, 16, 255].into_iter().enumerate() {
        let d: Vec<u8> = (0..len).map(|i| (0xAB + 0x11 * i + k) as u8).collect();
        for nl in [false, true] {
            let up = ref_encode(0xABCD + k as u16, 0xEF - k as u8, &d, nl);
            let lower: Vec<u8> = up.iter().map(|c| c.to_ascii_lowercase()).collect();
            let mixed: Vec<u8> = up.iter().enumerate().map(|(i, c)| if i % 3 == 1 { c.to_ascii_lowercase() } else { *c }).collect();
            for text in [lower, mixed] {
                let line = format!("DEC {}", hex_of_bytes(&text));
                let res = ctx.case(line.clone(), true, "decoded-from-lower-case");
                let want = format!("OK {}.{}.{}", 0xABCD + k as u16, 0xEF - k as u8, hex_of_bytes(&d));
                ctx.monitor(res == want, "C01-roundtrip-shape", &line[..line.len().min(200)], &res[..res.len().min(200)]);
            }
        }
    }
    // a write whose sink panics and a read whose source panics (each contained on a thread of its own) must not disturb
    // the frames handled afterwards, on this or any other thread
    {
        let line = "WIRES @ HE.3 SD.16.0102 RS.5.PLD".to_string();
        let res = ctx.case(line.clone(), true, "panicking-sink-then-more");
        ctx.monitor(res == "OK HE.3 ; OK SD.16.0102 ; OK RS.5.PLD | left=0", "C01-roundtrip-shape", &line, &res);
        for j in 0..4usize {
            let len = [0usize, 1, 16, 255][j];
            rt_case(ctx, 0x0301 + j as u16, (j * 50) as u8, &rng.bytes(len), j % 2 == 0, "panicking-sink-then-more");
        }
    }
    // the same round trips while a thread is being torn down (from the destructors of its thread-local objects)
    for (k, len) in [0usize, 1, 16, 255].into_iter().enumerate() {
        let line = format!("TLSD RT {} {} {}", 0x0102 + k, k * 60, { let b = rng.bytes(len); if b.is_empty() { "-".to_string() } else { hex_of_bytes(&b) } });
        let res = ctx.case(line.clone(), true, "thread-teardown");
        ctx.monitor(!res.contains("PANIC") && !res.contains("NOT-RUN"), "C01-roundtrip-shape", &line, &res);
    }
    // no other public way of making a Data lets more than 255 bytes through (From<&'static [u8; N]>)
    for n in [0usize, 1, 4, 5, 16, 255, 256] {
        let line = format!("NEWS {}", n);
        let res = ctx.case(line.clone(), true, "data-from-static-array");
        ctx.monitor(res == "OK", "C01-no-truncation", &line, &res);
    }
    // every message type, and addresses across the range, at length 0 and 1
    for t in 0..=255u16 {
        for a in [0u16, 1, 0xFFFF, 0x00FF, 0xFF00] {
            rt_case(ctx, a, t as u8, &[], a % 2 == 0, "all-types");
            rt_case(ctx, a, t as u8, &[(t as u8) ^ 0x5A], a % 2 == 1, "all-types");
        }
        rt_case(ctx, 0x1234, t as u8, &[], false, "all-types");
        rt_case(ctx, 0xFEDC, t as u8, &[t as u8], true, "all-types");
    }
    let astep = if ctx.tier_thorough { 1 } else { 16 };
    let mut a: u32 = 0;
    while a < 65536 {
        rt_case(ctx, a as u16, (a % 251) as u8, &[], false, "all-addresses");
        a += astep;
    }
    // ... nor can the decoder place more than 255 bytes in a frame, whatever the length byte says
    for s in oversize_strings(&mut rng) {
        let line = format!("DEC {}", hex_of_bytes(&s));
        let res = ctx.case(line.clone(), true, "oversize-wire-data");
        let short = if line.len() > 300 { format!("{}...", &line[..300]) } else { line.clone() };
        ctx.monitor(!res.starts_with("OK "), "C01-no-truncation", &short, &res[..res.len().min(200)]);
    }
    // ... also for blocks whose length only fits in more than 32 bits (zeroed reservations, never touched)
    for len in [1u64 << 32, (1 << 32) + 1, (1 << 32) + 255, (1 << 32) + 256, (1 << 33) + 16, (1 << 32) - 1, (1 << 31) + 7, 0, 1, 254, 255, 256, 257, 65535, 65536, 65791] {
        let line = format!("NEWZ {}", len);
        let res = ctx.case(line.clone(), true, if len < 70000 { "data-constructor-zeroed" } else { "data-constructor-4GiB" });
        ctx.monitor(res == (if len <= 255 { "OK" } else { "ER TOOLONG" }) || res == "UNAVAILABLE", "C01-no-truncation", &line, &res);
        if res == "UNAVAILABLE" {
            ctx.notes.insert("NEWZ".into(), "this machine could not reserve the zeroed address space for some 4 GiB blocks; those cases were not run".into());
        }
    }
    // one frame after another with the same address, type, length and byte sum (hence the same checksum) but other data:
    // whatever the codec remembers of the previous frame must not leak into the next
    for (k, (d1, d2)) in [(vec![1u8, 2], vec![2u8, 1]), (vec![1, 2, 3], vec![3, 2, 1]), (vec![0x7F, 0, 0x7F, 0], vec![0, 0x7F, 0, 0x7F]), (vec![0x10; 16], { let mut v = vec![0x10u8; 16]; v[0] = 0x0F; v[15] = 0x11; v }), ((0..255u32).map(|i| i as u8).collect::<Vec<u8>>(), (0..255u32).rev().map(|i| i as u8).collect())]
        .into_iter()
        .enumerate()
    {
        let (a, t) = (0x0010 + k as u16, (k as u8) * 3);
        for d in [&d1, &d2, &d1, &d2] {
            rt_case(ctx, a, t, d, k % 2 == 0, "same-checksum-other-data");
            let line = format!("ENC {} {} {}", a, t, hex_of_bytes(d));
            ctx.case(line, true, "same-checksum-other-data");
        }
    }
    // data that is itself the text of a frame (upper case, lower case, with and without CR LF, damaged)
    for (k, inner) in [&b":00000101FE"[..], &b":01000502FFF9"[..], &b":01000502fff9\r\n"[..], &b":00000101FE\r\n"[..], &b":00000101FF"[..], &b":0000"[..], &b"::"[..]].iter().enumerate() {
        for t in [0u8, 2, 0x42] {
            rt_case(ctx, 0x0200 + k as u16, t, inner, k % 2 == 0, "frame-text-as-data");
        }
    }
    // the Data constructor: accepted exactly up to 255 bytes
    for len in [0usize, 1, 2, 16, 254, 255, 256, 257, 300, 511, 512, 767, 1000, 4351, 65535, 65536, 65537, 65791, 65792, 100000, 131072, 131327] {
        let line = format!("NEW {}", len);
        let res = ctx.case(line.clone(), true, "data-constructor");
        let ok = if len <= 255 { res == "OK" } else { res == "ER TOOLONG" };
        ctx.monitor(ok, "C01-no-truncation", &line, &res);
    }
}

// ---------------------------------------------------------------------------------------------

/// Reference encoder (independent of the implementation): inputs for decode-side cases must not
/// depend on the implementation's own encoder being right.
pub fn ref_encode(a: u16, t: u8, d: &[u8], nl: bool) -> Vec<u8> {
    let mut bytes = vec![d.len() as u8, (a >> 8) as u8, (a & 0xFF) as u8, t];
    bytes.extend_from_slice(d);
    let sum: u32 = bytes.iter().map(|b| *b as u32).sum();
    bytes.push(((256 - sum % 256) % 256) as u8);
    let mut s = vec![b':'];
    for b in &bytes {
        s.push(b"0123456789ABCDEF"[(b >> 4) as usize]);
        s.push(b"0123456789ABCDEF"[(b & 15) as usize]);
    }
    if nl {
        s.extend_from_slice(b"\r\n");
    }
    s
}

/// Hand-built wire strings carrying MORE than 255 data bytes whose length byte is the actual count modulo 256
/// (or off by one from it) and whose checksum is right for the bytes as written: a decoder that compares the
/// count in 8 bits, or skips the 255-byte limit, accepts them.
/// What may follow a frame's text on the wire: the documented CR LF, and everything near it.
pub fn line_endings() -> Vec<Vec<u8>> {
    let mut v: Vec<Vec<u8>> = vec![b"\r\n".to_vec(), b"\n".to_vec(), b"\r".to_vec(), b"\r\r\n".to_vec(), b"\n\n".to_vec(), b"\n\r\n".to_vec(), b"\r\n\n".to_vec(), b"\r\n\r\n".to_vec(), b"\n\r".to_vec(), b" \r\n".to_vec(), b"\r\n ".to_vec(), b"\x0c".to_vec(), b"\x0b".to_vec()];
    for stray in [b'0', b'F', b'X', b' ', b':', 0u8, 0xFF, b'\t', b'\r'] {
        v.push(vec![stray, b'\n']);
        v.push(vec![stray, b'\r', b'\n']);
        v.push(vec![b'\r', stray, b'\n']);
        v.push(vec![stray, stray, b'\n']);
        v.push(vec![stray]);
    }
    v
}

pub fn oversize_strings(rng: &mut Rng) -> Vec<Vec<u8>> {
    let mut out = vec![];
    for (k, n) in [256usize, 257, 300, 511, 512, 515, 768, 1023, 2042, 2043, 2100, 4096, 5000].iter().enumerate() {
        for delta in [0usize, 1] {
            let mut bytes = vec![((n + delta) % 256) as u8, rng.byte(), rng.byte(), rng.byte()];
            bytes.extend(rng.bytes(*n));
            let sum: u32 = bytes.iter().map(|b| *b as u32).sum();
            bytes.push(((256 - sum % 256) % 256) as u8);
            let mut s = vec![b':'];
            for b in &bytes {
                s.push(b"0123456789ABCDEF"[(b >> 4) as usize]);
                s.push(b"0123456789ABCDEF"[(b & 15) as usize]);
            }
            if k % 2 == 1 {
                s.extend_from_slice(b"\r\n");
            }
            out.push(s);
        }
    }
    out
}

fn encode_of(ctx_line: &str) -> Vec<u8> {
    // "ENC a t data" -> reference encoding without newline
    let t: Vec<&str> = ctx_line.split(' ').collect();
    ref_encode(t[1].parse().unwrap(), t[2].parse().unwrap(), &bytes_of_hex(t[3]), false)
}

fn gen_c02(ctx: &mut Ctx) {
    let mut rng = Rng::new(ctx.seed, 2);
    // frames: (addr, type, data)
    let mut frames: Vec<(u16, u8, Vec<u8>)> = vec![
        (0, 0, vec![]),
        (0xFFFF, 0xFF, vec![]),
        (3, 2, vec![0xFF]),
        (0x7F, 4, vec![0x0F]),
        (0x10, 0, vec![0x00, 0x15]),
        (0x1234, 0xAB, vec![0xCD, 0xEF]),
        (0, 1, vec![]),
        (0xABCD, 0xEF, vec![0x01]),
        (0xA0A, 0xA, vec![0xA, 0xA0]),
        // maximum-length frames whose last bytes are zero: a checksum (or length) computation that stops short of
        // the end of a long frame is only exposed by damage in the tail, and only if the tail does not itself
        // change the sum it should have contributed to
        (0xFFFF, 0xFF, vec![0xFF; 255]),
        (0, 0, vec![0; 255]),
        (0x0102, 3, { let mut v: Vec<u8> = (0..252).map(|i| (i * 3 + 1) as u8).collect(); let n = v.len(); v[n - 4..].fill(0); v }),
        // frames whose length, address, type and data bytes add up to exactly 65535 / 65534 / 65536 (a 16-bit sum at its
        // edge): every raised digit must still be noticed
        (0xFF00, 0, vec![0xFF; 255]),
        (0xFE00, 0, vec![0xFF; 255]),
        (0xFF01, 0, vec![0xFF; 255]),
        (0xFF0F, 0, { let mut v = vec![0xFF; 255]; v[100] = 0xF0; v }),
    ];
    let nrand = if ctx.tier_thorough { 40 } else { 6 };
    for _ in 0..nrand {
        let len = *rng.pick(&[0usize, 1, 2, 3, 5, 16, 16, 17, 64, 255]);
        frames.push((rng.below(65536) as u16, rng.byte(), rng.bytes(len)));
    }
    // adversarial family: frames whose data embeds the fields of ANOTHER frame, preceded by a byte
    // that makes everything before the embedded part sum to 0 mod 256.  If the decoder ever looked
    // at a suffix (or re-synchronised on a second ':'), a single substitution planting ':' would
    // make it decode as that other frame with a matching checksum.
    let inner_frames: Vec<(u16, u8, Vec<u8>)> = vec![(2, 1, vec![]), (0x1234, 4, vec![0x0F]), (3, 0, vec![1, 2, 3]), (0, 0, vec![])];
    for (k, (ia, it, idata)) in inner_frames.iter().enumerate() {
        for (oa, ot) in [(0u16, 0u8), (0x0103, 7), (0xFF00, (k as u8) * 16 + 1)] {
            let mut inner = vec![idata.len() as u8, (ia >> 8) as u8, (ia & 0xFF) as u8, *it];
            inner.extend_from_slice(idata);
            let len = (1 + inner.len()) as u32;
            let head = len + (oa >> 8) as u32 + (oa & 0xFF) as u32 + ot as u32;
            let b0 = ((256 - head % 256) % 256) as u8;
            let mut d = vec![b0];
            d.extend_from_slice(&inner);
            frames.push((oa, ot, d));
        }
    }
    let structural: Vec<u8> = b":0123456789ABCDEFabcdefG\r\n\x00\xff /g@`+-".to_vec();
    for (fi, (a, t, d)) in frames.iter().enumerate() {
        let orig = format!("OK {}.{}.{}", a, t, hex_of_bytes(d));
        for nl in [false, true] {
            let mut enc = encode_of(&format!("ENC {} {} {}", a, t, hex_of_bytes(d)));
            if nl {
                enc.extend_from_slice(b"\r\n");
            }
            // what the library itself writes for this frame must be the reference encoding; if it is not (C01's
            // business), the damage cases below are run on the library's own output as well, because that is what a
            // receiver of this library's frames would see damaged
            let own_enc = {
                let e = crate::eval::eval_case(&format!("ENC {} {} {}", a, t, hex_of_bytes(d)));
                let mut v = bytes_of_hex(e.split(' ').next().unwrap_or("-"));
                if nl {
                    v.extend_from_slice(b"\r\n");
                }
                v
            };
            let encs: Vec<Vec<u8>> = if own_enc != enc && own_enc.len() > 10 { vec![enc.clone(), own_enc] } else { vec![enc.clone()] };
            for enc in encs {
            // through Frame::read as well (a reader-side limit or resynchronisation only shows there): for the
            // maximum-length frames and the frames that embed another frame, every deletion / duplication and the
            // structural substitutions; the line read must fail or give the original
            if nl && (d.len() >= 250 || fi >= 9) {
                let orig_rd = format!("OK {}.{}.{}", a, t, hex_of_bytes(d));
                let mut emit_rd = |ctx: &mut Ctx, mut s: Vec<u8>, class: &str| {
                    if s.contains(&b'\n') && s.last() != Some(&b'\n') {
                        return; // the damage split the line: the reader stops at the first LF, that is another case
                    }
                    if s.last() != Some(&b'\n') {
                        s.push(b'\n');
                    }
                    let line = format!("RD 1 {}", hex_of_bytes(&s));
                    let res = ctx.case(line.clone(), true, class);
                    let first = res.split(" | ").next().unwrap_or("");
                    let ok = first.starts_with("ER") || first == orig_rd;
                    ctx.monitor(ok, "C02-reject-or-original", &line[..line.len().min(400)], &format!("original [{}] got [{}]", &orig_rd[..orig_rd.len().min(60)], &first[..first.len().min(80)]));
                };
                let step = if d.len() >= 250 && !ctx.tier_thorough { 3 } else { 1 };
                let mut i = 0;
                while i < enc.len() - 2 {
                    let mut s = enc.clone();
                    s.insert(i, enc[i]);
                    emit_rd(ctx, s, "read-path-duplicate");
                    let mut s = enc.clone();
                    s.remove(i);
                    emit_rd(ctx, s, "read-path-delete");
                    for c in [b':', b'0', b'F'] {
                        if enc[i] != c {
                            let mut s = enc.clone();
                            s[i] = c;
                            emit_rd(ctx, s, "read-path-subst");
                        }
                    }
                    i += step;
                }
            }
            let full_alphabet = d.len() <= 2 && (ctx.tier_thorough || fi < 4);
            let mut emit = |ctx: &mut Ctx, s: Vec<u8>, class: &str| {
                if s == enc {
                    return;
                }
                let line = format!("DEC {}", hex_of_bytes(&s));
                let res = ctx.case(line.clone(), true, class);
                let ok = res.starts_with("ER ") || res == orig;
                ctx.monitor(ok, "C02-reject-or-original", &line, &format!("original [{}] got [{}]", orig, res));
            };
            for i in 0..enc.len() {
                // substitutions
                if full_alphabet {
                    for c in 0..=255u8 {
                        if c != enc[i] {
                            let mut s = enc.clone();
                            s[i] = c;
                            emit(ctx, s, "subst-all");
                        }
                    }
                } else {
                    let mut cs = structural.clone();
                    let extra = if ctx.tier_thorough { 8 } else { 2 };
                    for _ in 0..extra {
                        cs.push(rng.byte());
                    }
                    if d.len() > 20 && !ctx.tier_thorough && i % 7 != 0 && i > 12 && i + 16 < enc.len() {
                        cs.truncate(0);
                        cs.extend_from_slice(b"0Ff:");
                    }
                    for c in cs {
                        if c != enc[i] {
                            let mut s = enc.clone();
                            s[i] = c;
                            emit(ctx, s, "subst-structural");
                        }
                    }
                }
                // deletion
                let mut s = enc.clone();
                s.remove(i);
                emit(ctx, s, "delete");
                // duplication
                let mut s = enc.clone();
                s.insert(i, enc[i]);
                emit(ctx, s, "duplicate");
                // adjacent transposition of unequal characters
                if i + 1 < enc.len() && enc[i] != enc[i + 1] {
                    let mut s = enc.clone();
                    s.swap(i, i + 1);
                    emit(ctx, s, "swap");
                }
                // proper prefix
                emit(ctx, enc[..i].to_vec(), "truncate");
            }
            }
        }
    }
    // declared length / checksum disagreement is never accepted: more than 255 data bytes with the length byte
    // equal to the count modulo 256
    for s in oversize_strings(&mut rng) {
        let line = format!("DEC {}", hex_of_bytes(&s));
        let res = ctx.case(line.clone(), true, "len-wraps-mod-256");
        let short = if line.len() > 300 { format!("{}...", &line[..300]) } else { line.clone() };
        ctx.monitor(!res.starts_with("OK "), "C02-len-ck-never-accepted", &short, &res[..res.len().min(200)]);
    }
    // declared length / checksum disagreement is never accepted: hand-built strings
    for _ in 0..(if ctx.tier_thorough { 4000 } else { 600 }) {
        let n = rng.below(6) as usize;
        let mut bytes = vec![rng.below(8) as u8, rng.byte(), rng.byte(), rng.byte()];
        bytes.extend(rng.bytes(n));
        let sum: u32 = bytes.iter().map(|b| *b as u32).sum();
        let good = ((256 - sum % 256) % 256) as u8;
        let ck = if rng.chance(1, 2) { good } else { rng.byte() };
        let declared = bytes[0] as usize;
        bytes.push(ck);
        let mut s = vec![b':'];
        for b in &bytes {
            s.push(b"0123456789ABCDEF"[(b >> 4) as usize]);
            s.push(b"0123456789abcdef"[(b & 15) as usize]);
        }
        let line = format!("DEC {}", hex_of_bytes(&s));
        let res = ctx.case(line.clone(), true, "len-ck-handbuilt");
        let should_accept = declared == n && ck == good;
        let ok = res.starts_with("OK ") == should_accept;
        ctx.monitor(ok, "C02-len-ck-never-accepted", &line, &res);
    }
}

// ---------------------------------------------------------------------------------------------

const SIGMA: &[u8] = b":0123456789ABCDEFabcdefG\r\n\x00\xff+";

fn dec_case(ctx: &mut Ctx, s: &[u8], class: &str) -> String {
    let line = format!("DEC {}", hex_of_bytes(s));
    let res = ctx.case(line.clone(), !s.is_empty(), class);
    let ok = res != "PANIC" && !res.starts_with("ER TOOLONG") && !res.starts_with("ER IO") && res != "ER ???";
    ctx.monitor(ok, "C03-total", &line, &res);
    // independent parser: the documented form, written directly
    let want = reference_parse(s);
    ctx.monitor(want == res, "C03-independent-parser", &line, &format!("reference [{}] got [{}]", want, res));
    res
}

/// An independent Intel-HEX parser written from the documentation of the format
/// (not from the implementation, not from the Coq model).
pub fn reference_parse(s: &[u8]) -> String {
    let invalid = "ER INVALID".to_string();
    if s.first() != Some(&b':') {
        return invalid;
    }
    let mut body = &s[1..];
    if body.len() >= 2 && body[body.len() - 2] == b'\r' && body[body.len() - 1] == b'\n' {
        body = &body[..body.len() - 2];
    }
    if body.len() < 10 || body.len() % 2 != 0 {
        return invalid;
    }
    let mut bytes = vec![];
    for pair in body.chunks(2) {
        match (hexval(pair[0]), hexval(pair[1])) {
            (Some(h), Some(l)) => bytes.push(16 * h + l),
            _ => return invalid,
        }
    }
    let declared = bytes[0] as usize;
    let data = &bytes[4..bytes.len() - 1];
    if data.len() != declared {
        return format!("ER MISMATCH {} {}", declared, data.len());
    }
    let sum: u32 = bytes[..bytes.len() - 1].iter().map(|b| *b as u32).sum();
    let computed = ((256 - sum % 256) % 256) as u8;
    let provided = bytes[bytes.len() - 1];
    if computed != provided {
        return format!("ER BADCK {} {}", provided, computed);
    }
    format!("OK {}.{}.{}", (bytes[1] as u16) << 8 | bytes[2] as u16, bytes[3], hex_of_bytes(data))
}

fn valid_templates(rng: &mut Rng, n: usize) -> Vec<Vec<u8>> {
    let mut v = vec![];
    let base: Vec<(u16, u8, Vec<u8>)> = vec![
        (0, 0, vec![]),
        (2, 1, vec![3, 31]),
        (0xFFFF, 0xFF, vec![0xFF]),
        (0xABCD, 0xEF, vec![0xAB, 0xCD, 0xEF]),
    ];
    for (a, t, d) in base {
        v.push(encode_of(&format!("ENC {} {} {}", a, t, hex_of_bytes(&d))));
    }
    for _ in 0..n {
        let len = *rng.pick(&[0usize, 1, 2, 4, 16, 40, 255]);
        let d = rng.bytes(len);
        v.push(encode_of(&format!("ENC {} {} {}", rng.below(65536), rng.byte(), hex_of_bytes(&d))));
    }
    v
}

fn gen_c03(ctx: &mut Ctx) {
    let mut rng = Rng::new(ctx.seed, 3);
    // 1. exhaustive: all strings up to length L over the structural alphabet
    let maxlen = if ctx.tier_thorough { 4 } else { 3 };
    for len in 0..=maxlen {
        let mut idx = vec![0usize; len];
        loop {
            let s: Vec<u8> = idx.iter().map(|i| SIGMA[*i]).collect();
            dec_case(ctx, &s, &format!("exhaustive-len{}", len));
            let mut k = 0;
            while k < len {
                idx[k] += 1;
                if idx[k] < SIGMA.len() {
                    break;
                }
                idx[k] = 0;
                k += 1;
            }
            if k == len {
                break;
            }
        }
    }
    ctx.notes.insert("exhaustive".into(), format!("all strings of length <= {} over the 29-symbol structural alphabet", maxlen));
    // decoding while a thread is being torn down (from the destructors of its thread-local objects): total there too
    for bad in [&b":01007F02FF7F"[..], &b":01007F02FF7E"[..], &b":00007F02007F"[..], &b":01007F02FF7"[..], &b"garbage"[..], &b":01007f02ff7f\r\n"[..], &b""[..]] {
        let line = format!("TLSD DEC {}", if bad.is_empty() { "-".to_string() } else { hex_of_bytes(bad) });
        let res = ctx.case(line.clone(), true, "thread-teardown");
        ctx.monitor(!res.contains("PANIC") && !res.contains("NOT-RUN"), "C03-total", &line, &res);
    }
    // more than 255 data bytes with a length byte equal to (or one off) the count modulo 256
    for s in oversize_strings(&mut rng) {
        dec_case(ctx, &s, "oversize-wire-data");
    }
    // ... and the same texts, and maximum-length valid ones, followed by every kind of line ending and stray byte
    {
        let mut texts: Vec<Vec<u8>> = oversize_strings(&mut rng).into_iter().take(8).map(|mut s| { if s.ends_with(b"\r\n") { s.truncate(s.len() - 2); } s }).collect();
        texts.push(ref_encode(0x0102, 0, &rng.bytes(255), false));
        texts.push(ref_encode(0xFFFF, 9, &rng.bytes(254), false));
        for t in &texts {
            for term in line_endings() {
                let mut s = t.clone();
                s.extend_from_slice(&term);
                dec_case(ctx, &s, "long-text-line-endings");
            }
        }
    }
    // the heaviest frames there are (all encoded bytes 0xFF or nearly), valid and with one digit changed
    for (a, t, len, last) in [(0xFFFFu16, 0xFFu8, 255usize, 0xFFu8), (0xFFFF, 0xFF, 254, 0xFF), (0xFFFE, 0xFF, 255, 0xFE), (0x00FF, 0, 255, 0xFF)] {
        let mut d = vec![0xFFu8; len];
        *d.last_mut().unwrap() = last;
        for nl in [false, true] {
            let s = ref_encode(a, t, &d, nl);
            dec_case(ctx, &s, "heavy-frame");
            for pos in [1usize, 2, 3, 8, s.len() / 2, s.len() - 5, s.len() - 3] {
                let mut c = s.clone();
                c[pos] = if c[pos] == b'0' { b'1' } else { b'0' };
                dec_case(ctx, &c, "heavy-frame-damaged");
            }
        }
    }
    // 2. x ++ valid ++ y with |x| + |y| <= 2
    let templates = valid_templates(&mut rng, if ctx.tier_thorough { 12 } else { 3 });
    for (ti, tpl) in templates.iter().enumerate() {
        for nl in [false, true] {
            let mut v = tpl.clone();
            if nl {
                v.extend_from_slice(b"\r\n");
            }
            dec_case(ctx, &v, "valid");
            // lower-case variant
            let lower: Vec<u8> = v.iter().map(|c| c.to_ascii_lowercase()).collect();
            dec_case(ctx, &lower, "valid-lowercase");
            if ti < 5 {
                for x in SIGMA {
                    let mut s = vec![*x];
                    s.extend_from_slice(&v);
                    dec_case(ctx, &s, "prefix1");
                    let mut s = v.clone();
                    s.push(*x);
                    dec_case(ctx, &s, "suffix1");
                    for y in SIGMA {
                        let mut s = vec![*x, *y];
                        s.extend_from_slice(&v);
                        dec_case(ctx, &s, "prefix2");
                        let mut s = v.clone();
                        s.push(*x);
                        s.push(*y);
                        dec_case(ctx, &s, "suffix2");
                        let mut s = vec![*x];
                        s.extend_from_slice(&v);
                        s.push(*y);
                        dec_case(ctx, &s, "prefix1-suffix1");
                    }
                }
            }
            // 3. up to 2 positions replaced by each symbol (short templates: all pairs; else sampled)
            let n = v.len();
            for i in 0..n {
                for x in SIGMA {
                    let mut s = v.clone();
                    s[i] = *x;
                    dec_case(ctx, &s, "replace1");
                }
            }
            if n <= 20 && ti < 3 {
                for i in 0..n {
                    for j in (i + 1)..n {
                        for x in SIGMA {
                            for y in [b'0', b'F', b'f', b':', b'\r', b'\n', b'G'] {
                                let mut s = v.clone();
                                s[i] = *x;
                                s[j] = y;
                                dec_case(ctx, &s, "replace2");
                            }
                        }
                    }
                }
            }
        }
    }
    // 3b. multi-byte UTF-8 sequences a Unicode-aware matcher could take for a digit / hex letter
    //     (non-ASCII decimal digits, full-width forms, look-alike letters), in place of one or two
    //     characters of a valid frame
    let lookalikes: Vec<&[u8]> = vec![
        b"\xD9\xA0", b"\xD9\xA9", b"\xDB\xB0", b"\xDB\xB5", b"\xDF\x80", b"\xE0\xA5\xA6", b"\xE0\xA7\xAB",
        b"\xEF\xBC\x90", b"\xEF\xBC\x99", b"\xEF\xBC\xA1", b"\xEF\xBC\xA6", b"\xEF\xBD\x81", b"\xEF\xBD\x86",
        b"\xF0\x9D\x9F\x8E", b"\xF0\x9D\x9F\x97", b"\xC2\xB2", b"\xC2\xBD", b"\xE2\x85\xA0", b"\xCE\x91", b"\xD0\x90",
        b"\xE2\x80\xA8", b"\xC2\x85", b"\xEF\xBB\xBF", b"\xE2\x84\xAA", b"\xC5\xBF", b"\xC0\xB0", b"\xE0\x80\xB0",
        // characters whose upper / lower / folded case is SEVERAL characters (the ff, fi, ffi ligatures become "FF", "FI",
        // "FFI"; sharp s, dotted capital I, the dz digraph, n preceded by apostrophe)
        b"\xEF\xAC\x80", b"\xEF\xAC\x81", b"\xEF\xAC\x83", b"\xC3\x9F", b"\xC4\xB0", b"\xC7\x85", b"\xC5\x89",
    ];
    for (ti, tpl) in templates.iter().enumerate().take(if ctx.tier_thorough { 8 } else { 3 }) {
        let _ = ti;
        for nl in [false, true] {
            let mut v = tpl.clone();
            if nl {
                v.extend_from_slice(b"\r\n");
            }
            let n = v.len().min(40);
            for i in 0..n {
                for seq in &lookalikes {
                    // one character replaced by the sequence
                    let mut s = v[..i].to_vec();
                    s.extend_from_slice(seq);
                    s.extend_from_slice(&v[i + 1..]);
                    dec_case(ctx, &s, "unicode-lookalike");
                    // as many characters as the sequence has bytes replaced (length preserved)
                    if i + seq.len() <= v.len() {
                        let mut s = v[..i].to_vec();
                        s.extend_from_slice(seq);
                        s.extend_from_slice(&v[i + seq.len()..]);
                        dec_case(ctx, &s, "unicode-lookalike");
                    }
                    // two characters replaced by the sequence (a pair such as "FF" by one character that case-maps to it)
                    if i + 2 <= v.len() && seq.len() != 2 {
                        let mut s = v[..i].to_vec();
                        s.extend_from_slice(seq);
                        s.extend_from_slice(&v[i + 2..]);
                        dec_case(ctx, &s, "unicode-lookalike");
                    }
                    // sequence inserted
                    let mut s = v[..i].to_vec();
                    s.extend_from_slice(seq);
                    s.extend_from_slice(&v[i..]);
                    dec_case(ctx, &s, "unicode-lookalike");
                }
            }
        }
    }
    // 4. thorough: every length/checksum precedence combination on tiny frames
    if ctx.tier_thorough {
        let digs = [b'0', b'1', b'F', b'f'];
        let mut idx = [0usize; 10];
        loop {
            let mut s = vec![b':'];
            s.extend(idx.iter().map(|i| digs[*i]));
            dec_case(ctx, &s, "digits10-over-01Ff");
            let mut k = 0;
            while k < 10 {
                idx[k] += 1;
                if idx[k] < 4 {
                    break;
                }
                idx[k] = 0;
                k += 1;
            }
            if k == 10 {
                break;
            }
        }
        let digs = [b'0', b'F', b'f'];
        let mut idx = [0usize; 12];
        loop {
            let mut s = vec![b':'];
            s.extend(idx.iter().map(|i| digs[*i]));
            dec_case(ctx, &s, "digits12-over-0Ff");
            let mut k = 0;
            while k < 12 {
                idx[k] += 1;
                if idx[k] < 3 {
                    break;
                }
                idx[k] = 0;
                k += 1;
            }
            if k == 12 {
                break;
            }
        }
    }
    // 5. hand-built length/checksum combinations and random mutation over all 256 byte values
    let n = if ctx.tier_thorough { 60000 } else { 6000 };
    for _ in 0..n {
        let mode = rng.below(6);
        let s: Vec<u8> = match mode {
            0 => {
                let n = rng.below(40) as usize;
                rng.bytes(n)
            }
            1 | 2 => {
                // hex body with consistent or inconsistent length/checksum
                let big = rng.chance(1, 10);
                let nbytes = 5 + rng.below(if big { 250 } else { 8 }) as usize;
                let mut bytes = rng.bytes(nbytes);
                if rng.chance(3, 4) {
                    bytes[0] = (nbytes - 5) as u8;
                } else {
                    bytes[0] = rng.below(8) as u8;
                }
                if rng.chance(2, 3) {
                    let sum: u32 = bytes[..nbytes - 1].iter().map(|b| *b as u32).sum();
                    bytes[nbytes - 1] = ((256 - sum % 256) % 256) as u8;
                }
                let mut s = vec![b':'];
                for b in &bytes {
                    let up = rng.chance(1, 2);
                    let tbl: &[u8] = if up { b"0123456789ABCDEF" } else { b"0123456789abcdef" };
                    s.push(tbl[(b >> 4) as usize]);
                    s.push(tbl[(b & 15) as usize]);
                }
                match rng.below(5) {
                    0 => s.extend_from_slice(b"\r\n"),
                    1 => s.extend_from_slice(b"\n"),
                    2 => s.extend_from_slice(b"\r\n\r\n"),
                    _ => {}
                }
                s
            }
            _ => {
                // mutate a valid frame
                let mut s = rng.pick(&templates).clone();
                if rng.chance(1, 2) {
                    s.extend_from_slice(b"\r\n");
                }
                for _ in 0..(1 + rng.below(3)) {
                    if s.is_empty() {
                        break;
                    }
                    let i = rng.below(s.len() as u64) as usize;
                    match rng.below(4) {
                        0 => s[i] = rng.byte(),
                        1 => {
                            s.remove(i);
                        }
                        2 => s.insert(i, rng.byte()),
                        _ => s[i] = *rng.pick(SIGMA),
                    }
                }
                s
            }
        };
        dec_case(ctx, &s, "random-mutation");
    }
}

// ---------------------------------------------------------------------------------------------

/// The protocol code table, transcribed from the property statement (type, first byte) for
/// one-byte frames; independent of both the implementation and the Coq model.
fn table_kind(t: u8, d: &[u8]) -> Option<&'static str> {
    const STATE_CODES: [u8; 13] = [0x0F, 0x0D, 0x07, 0x0C, 0x03, 0x01, 0x0B, 0x10, 0x13, 0x12, 0x11, 0x00, 0x08];
    const REQ_CODES: [u8; 6] = [0xA1, 0xA2, 0xA9, 0xAA, 0xA6, 0xA7];
    const ACK_CODES: [u8; 6] = [0x95, 0x91, 0x96, 0x97, 0x93, 0x94];
    if t == 0 {
        return Some("SD");
    }
    match (t, d.len()) {
        (1, 0) => Some("DC"),
        (2, 1) if d[0] == 0xFF => Some("HE"),
        (2, 1) if d[0] == 0x00 => Some("QS"),
        (2, 1) if d[0] == 0x55 => Some("GB"),
        (3, 1) if REQ_CODES.contains(&d[0]) => Some("RO"),
        (5, 1) if ACK_CODES.contains(&d[0]) => Some("AO"),
        (4, 1) if STATE_CODES.contains(&d[0]) => Some("RS"),
        (6, 1) if d[0] == 0x00 => Some("PC"),
        _ => None,
    }
}

fn f2m_case(ctx: &mut Ctx, a: u16, t: u8, d: &[u8], borrowed: bool, class: &str) {
    let line = format!("{} {} {} {}", if borrowed { "F2MB" } else { "F2M" }, a, t, hex_of_bytes(d));
    let res = ctx.case(line.clone(), true, class);
    let parts: Vec<&str> = res.split(' ').collect();
    let frame_str = format!("{}.{}.{}", a, t, hex_of_bytes(d));
    let mut ok = parts.len() == 2 && parts[1] == frame_str;
    let mut detail = String::new();
    if !ok {
        detail = format!("frame back [{}] != original [{}]", parts.get(1).unwrap_or(&"?"), frame_str);
    } else {
        let kind = &parts[0][..2];
        match table_kind(t, d) {
            Some(k) => {
                let m: Vec<&str> = parts[0].split('.').collect();
                if k != kind {
                    ok = false;
                    detail = format!("table says {} but got {}", k, parts[0]);
                } else if m[1] != a.to_string() {
                    ok = false;
                    detail = format!("address not carried: {}", parts[0]);
                }
            }
            None => {
                if parts[0] != format!("UN.{}", frame_str) {
                    ok = false;
                    detail = format!("not in table but reported as {}", parts[0]);
                }
            }
        }
    }
    ctx.monitor(ok, "C04-roundtrip-table", &line, &detail);
}

fn gen_c04(ctx: &mut Ctx) {
    let mut rng = Rng::new(ctx.seed, 4);
    let addrs: Vec<u16> = if ctx.tier_thorough { vec![0, 3, 0x1234, 0xFFFF] } else { vec![3, 0xFEDC] };
    let lens: Vec<usize> = if ctx.tier_thorough { vec![0, 1, 2, 3, 16, 255] } else { vec![0, 1, 2, 3] };
    for t in 0..=255u16 {
        for b0 in 0..=255u16 {
            for &len in &lens {
                if len == 0 && b0 != 0 {
                    continue;
                }
                for (ai, &a) in addrs.iter().enumerate() {
                    if len >= 3 && ai > 0 && !(t < 8) {
                        continue;
                    }
                    let mut d = vec![b0 as u8; len.min(1)];
                    while d.len() < len {
                        d.push(rng.byte());
                    }
                    f2m_case(ctx, a, t as u8, &d, (t + b0) % 2 == 1, &format!("len{}", len));
                }
            }
        }
    }
    if !ctx.tier_thorough {
        for t in 0..=255u16 {
            for len in [16usize, 255] {
                let d = rng.bytes(len);
                f2m_case(ctx, rng.below(65536) as u16, t as u8, &d, t % 2 == 0, &format!("len{}", len));
            }
        }
    }
    // frames that only just miss a table row: every first byte followed by a STRUCTURED tail (all 00, all FF, the first
    // byte repeated, counting up, the address bytes in either order), for the types the protocol uses
    for t in 0..=7u8 {
        for b0 in 0..=255u16 {
            let b0 = b0 as u8;
            for (ai, a) in [0x0102u16, 0x00FF, 0xA1A2].into_iter().enumerate() {
                if !ctx.tier_thorough && ai != (b0 as usize + t as usize) % 3 {
                    continue;
                }
                let tails: Vec<Vec<u8>> = vec![
                    vec![0x00], vec![0xFF], vec![b0], vec![0xFF, 0xFF], vec![0x00, 0x00, 0x00], vec![b0, b0, b0],
                    vec![1, 2, 3], vec![(a >> 8) as u8], vec![(a & 0xFF) as u8], vec![0xFF; 15],
                    vec![0x0D, 0x0A], vec![0x0A], vec![0x0D], vec![0x0A, 0x0D], vec![0x3A], vec![0x20],
                ];
                for tail in tails {
                    let mut d = vec![b0];
                    d.extend(tail);
                    f2m_case(ctx, a, t, &d, b0 % 2 == 0, "structured-tail");
                }
            }
        }
    }
    // data that is itself the text of a frame line (of a hello, a report, a data chunk; either case; with and without
    // CR LF; damaged): still just data
    for (k, (ia, it, id)) in [(5u16, 2u8, vec![0xFFu8]), (3, 4, vec![0x13]), (0, 1, vec![]), (16, 0, vec![1, 2, 3]), (0xFFFF, 6, vec![0])].into_iter().enumerate() {
        for nl in [false, true] {
            let text = ref_encode(ia, it, &id, nl);
            let lower: Vec<u8> = text.iter().map(|c| c.to_ascii_lowercase()).collect();
            let mut damaged = text.clone();
            damaged[3] ^= 1;
            for inner in [text, lower, damaged] {
                for t in [0u8, 1, 2, 3, 4, 0x42, 0xFF] {
                    f2m_case(ctx, 0x0300 + k as u16, t, &inner, (k + t as usize) % 2 == 0, "frame-text-as-data");
                }
            }
        }
    }
    // data blocks handed out by the library itself (the block of a catalogue message's frame, of a decoded frame) put into
    // frames of every type: where a block came from makes no difference
    for t in [0u8, 1, 2, 3, 4, 5, 6, 7, 0x42, 0xFF] {
        for b in 0..=255u16 {
            for a in [3u16, 0xFEDC] {
                let line = format!("F2MP {} {} {:02X}", a, t, b);
                ctx.case(line, true, "library-owned-block");
            }
        }
    }
    // uniform data (all 00, all FF, all 10: what fillers and padding look like) of every length class up to 255, in owned
    // and borrowed buffers, for the types the protocol uses
    for t in [0u8, 1, 2, 3, 4, 5, 6, 0x42] {
        for fill in [0x00u8, 0xFF, 0x10] {
            for len in [1usize, 2, 15, 16, 17, 18, 31, 32, 33, 100, 128, 254, 255] {
                for borrowed in [false, true] {
                    f2m_case(ctx, 0x0102, t, &vec![fill; len], borrowed, "uniform-data");
                }
            }
        }
    }
    // every first byte at the lengths in between (4..=9, 15, 17) for the types the protocol uses and two it does not
    for t in [0u8, 1, 2, 3, 4, 5, 6, 7, 0x42] {
        for b0 in 0..=255u16 {
            for len in [4usize, 5, 6, 7, 8, 9, 15, 17] {
                if !ctx.tier_thorough && (b0 as usize + len + t as usize) % 3 != 0 && len != 4 {
                    continue;
                }
                let mut d = vec![b0 as u8];
                d.extend(rng.bytes(len - 1));
                f2m_case(ctx, 0x0102 + t as u16, t, &d, (b0 + len as u16) % 2 == 0, "in-between-lengths");
            }
        }
    }
    // data that BEGINS with the frame's own address field (either byte order) followed by 0..4 more bytes
    for t in 0..=6u8 {
        for a in [0u16, 1, 3, 0x00FF, 0x0100, 0x0102, 0x1234, 0xA5A5, 0xFFFF] {
            for extra in 0..=4usize {
                for le in [false, true] {
                    let mut d = if le { vec![(a & 0xFF) as u8, (a >> 8) as u8] } else { vec![(a >> 8) as u8, (a & 0xFF) as u8] };
                    d.extend(match extra { 0 => vec![], 1 => vec![0], 2 => vec![0xA5, 0xA5], 3 => vec![0, 0, 0], _ => vec![0xFF, 0, 0xFF, 0] });
                    f2m_case(ctx, a, t, &d, extra % 2 == 0, "data-begins-with-address");
                }
            }
        }
    }
    // data equal to the frame's own address field (big- and little-endian), across the address range
    let step = if ctx.tier_thorough { 1u32 } else { 37 };
    for t in 0..=6u8 {
        let mut a: u32 = 0;
        while a < 65536 {
            let be = vec![(a >> 8) as u8, (a & 0xFF) as u8];
            f2m_case(ctx, a as u16, t, &be, a % 2 == 0, "data-is-address");
            if a % 3 == 0 {
                f2m_case(ctx, a as u16, t, &[be[1], be[0]], a % 2 == 1, "data-is-address");
            }
            a += if a < 0x1100 { step.min(7) } else { step * 5 };
        }
    }
    // every two-byte data block for the types that carry codes (pairs of related codes, e.g. an ack code followed by
    // its request code, are only found by sweeping both bytes)
    for t in [1u8, 2, 3, 4, 5, 6] {
        for b0 in 0..=255u16 {
            for b1 in 0..=255u16 {
                if !ctx.tier_thorough && !(t == 5 || t == 3 || (b0 + b1) % 4 == t as u16 % 4) {
                    continue;
                }
                f2m_case(ctx, 3, t, &[b0 as u8, b1 as u8], false, "two-byte-sweep");
            }
        }
    }
    // data chunks that merely START like a configuration block (each of the 11 (family, id) pairs, other bytes
    // arbitrary), and the genuine blocks themselves: forwarded byte for byte
    for (f, id) in [(4u8, 0x47u8), (4, 0x4D), (4, 0x20), (4, 0x62), (4, 0x61), (4, 0x26), (8, 0xB1), (8, 0xB2), (8, 0xB4), (8, 0xB5), (8, 0xB9)] {
        for k in 0..6u16 {
            let mut d = rng.bytes(16);
            d[0] = f;
            d[1] = id;
            f2m_case(ctx, [0u16, 16, 0x100, 3][k as usize % 4], 0, &d, k % 2 == 0, "looks-like-config-block");
            f2m_case(ctx, 0, 0, &d[..2 + k as usize * 2], k % 2 == 1, "looks-like-config-block");
        }
    }
    // type-0 data of every length 17..=255 in owned buffers (some with spare capacity) and borrowed ones
    for len in 17..=255usize {
        f2m_case(ctx, (len * 16 % 65536) as u16, 0, &rng.bytes(len), false, "long-owned-data");
        if len % 5 == 0 {
            f2m_case(ctx, 16, 0, &rng.bytes(len), true, "long-borrowed-data");
            f2m_case(ctx, 3, (len % 7 + 1) as u8, &rng.bytes(len), false, "long-owned-unknown");
        }
    }
    // every recognised row x addresses across the whole range
    let rows: Vec<(u8, Vec<u8>)> = {
        let mut r: Vec<(u8, Vec<u8>)> = vec![(0, vec![]), (0, vec![7]), (0, vec![1, 2, 3]), (1, vec![]), (2, vec![0xFF]), (2, vec![0]), (2, vec![0x55]), (6, vec![0])];
        for c in [0x0F, 0x0D, 0x07, 0x0C, 0x03, 0x01, 0x0B, 0x10, 0x13, 0x12, 0x11, 0x00, 0x08] {
            r.push((4, vec![c]));
        }
        for c in [0xA1, 0xA2, 0xA9, 0xAA, 0xA6, 0xA7] {
            r.push((3, vec![c]));
        }
        for c in [0x95, 0x91, 0x96, 0x97, 0x93, 0x94] {
            r.push((5, vec![c]));
        }
        r
    };
    let astep: u32 = if ctx.tier_thorough { 1 } else { 61 };
    for (t, d) in &rows {
        let mut a: u32 = 0;
        while a < 65536 {
            f2m_case(ctx, a as u16, *t, d, a % 2 == 0, "recognised-row-x-address");
            a += astep;
        }
        f2m_case(ctx, 0xFFFF, *t, d, false, "recognised-row-x-address");
    }
}

// ---------------------------------------------------------------------------------------------

fn wire_case(ctx: &mut Ctx, m: String, class: &str) {
    let line = format!("WIRE {}", m);
    let res = ctx.case(line.clone(), true, class);
    let want = format!("OK {} | OK {}", m, m);
    ctx.monitor(res == want, "C05-wire-roundtrip", &line, &res);
    // injectivity is checked over the whole run by the caller through `seen_encodings`
}

fn gen_c05(ctx: &mut Ctx) {
    let mut rng = Rng::new(ctx.seed, 5);
    let astep: u32 = if ctx.tier_thorough { 1 } else { 257 };
    let mut addrs: Vec<u16> = ADDRS.to_vec();
    let mut a: u32 = 0;
    while a < 65536 {
        addrs.push(a as u16);
        a += astep;
    }
    let mut enc_seen: std::collections::HashMap<String, String> = std::collections::HashMap::new();
    let mut inj = |ctx: &mut Ctx, m: &str| {
        let f = crate::eval::eval_case(&format!("M2F {}", m));
        let p: Vec<&str> = f.split('.').collect();
        let e = crate::eval::eval_case(&format!("ENC {} {} {}", p[0], p[1], p[2]));
        let enc = e.split(' ').next().unwrap().to_string();
        if let Some(prev) = enc_seen.get(&enc) {
            if prev != m {
                ctx.monitor(false, "C05-injective", &format!("WIRE {}", m), &format!("same encoding as {}", prev));
            }
        } else {
            enc_seen.insert(enc, m.to_string());
        }
    };
    for (i, &a) in addrs.iter().enumerate() {
        let full = ctx.tier_thorough || i < ADDRS.len() || i % 16 == 0;
        for kind in ["HE", "QS", "PC", "GB", "DC"] {
            let m = format!("{}.{}", kind, a);
            wire_case(ctx, m.clone(), kind);
            inj(ctx, &m);
        }
        if full {
            for (_, st) in STATES.iter() {
                let m = format!("RS.{}.{}", a, st);
                wire_case(ctx, m.clone(), "RS");
                inj(ctx, &m);
            }
            for (_, op) in OPS.iter() {
                let m = format!("RO.{}.{}", a, op);
                wire_case(ctx, m.clone(), "RO");
                inj(ctx, &m);
                let m = format!("AO.{}.{}", a, op);
                wire_case(ctx, m.clone(), "AO");
                inj(ctx, &m);
            }
        } else {
            let st = STATES[(i % 13) as usize].1;
            let op = OPS[(i % 6) as usize].1;
            for m in [format!("RS.{}.{}", a, st), format!("RO.{}.{}", a, op), format!("AO.{}.{}", a, op)] {
                wire_case(ctx, m.clone(), &m[..2]);
                inj(ctx, &m);
            }
        }
    }
    // SendData for every length 0..=255
    let per = if ctx.tier_thorough { 24 } else { 4 };
    for len in 0..=255usize {
        for k in 0..per {
            let off = if k == 0 { 0 } else if k == 1 { 16 } else { rng.below(65536) as u16 };
            let d = match k {
                0 => vec![0u8; len],
                1 => vec![0xFFu8; len],
                _ => rng.bytes(len),
            };
            let m = format!("SD.{}.{}", off, hex_of_bytes(&d));
            wire_case(ctx, m.clone(), &format!("SD-len{:03}", len / 64 * 64));
            inj(ctx, &m);
        }
    }
    // the heaviest data chunks there are: all bytes 0xFF at the highest offsets (the frame's bytes add up to 65536 or more)
    for off in [0xFFFFu16, 0xFFFE, 0xF8F0, 0xFF00, 0x00FF, 0xFEFF, 0x0100] {
        for len in [255usize, 254, 253] {
            let m = format!("SD.{}.{}", off, hex_of_bytes(&vec![0xFFu8; len]));
            wire_case(ctx, m.clone(), "SD-heavy");
            inj(ctx, &m);
        }
    }
    // data chunks whose content is itself the text of a frame line (valid, lower case, with CR LF, damaged), and chunk
    // counts / addresses whose digits spell structural characters
    for (k, (ia, it, id)) in [(0u16, 1u8, vec![]), (5, 2, vec![0xFFu8]), (3, 4, vec![0x13]), (16, 0, vec![1, 2, 3])].into_iter().enumerate() {
        for nl in [false, true] {
            let text = ref_encode(ia, it, &id, nl);
            let lower: Vec<u8> = text.iter().map(|c| c.to_ascii_lowercase()).collect();
            let mut damaged = text.clone();
            damaged[3] ^= 1;
            for inner in [text, lower, damaged] {
                let m = format!("SD.{}.{}", k * 16, hex_of_bytes(&inner));
                wire_case(ctx, m.clone(), "SD-frame-text");
                inj(ctx, &m);
            }
        }
    }
    for m in ["SD.0.3A", "SD.0.3A3A", "SD.0.0D0A", "SD.14938.3A30", "DC.14906", "DC.3338", "HE.14906", "HE.3338", "RS.2573.PLD"] {
        wire_case(ctx, m.to_string(), "structural-bytes");
        inj(ctx, m);
    }
    // a rejected line of each kind must not influence the messages handled after it
    for (k, bad) in [&b":01007F02FF7E"[..], &b":00007F02007F"[..], &b"garbage"[..], &b":0200000000FE"[..], &b":01007F02FF7E\r\n"[..]].iter().enumerate() {
        ctx.case(format!("DEC {}", hex_of_bytes(bad)), true, "rejected-line-then-more");
        for m in [format!("HE.{}", 3 + k), format!("SD.16.{}", hex_of_bytes(&rng.bytes(1 + 40 * k))), format!("RS.{}.PLD", 0xFF00 + k), "DC.513".to_string()] {
            wire_case(ctx, m.clone(), "rejected-line-then-more");
        }
    }
    // several messages one after the other through a byte stream (Frame::write, then Frame::read): each comes back as
    // itself and nothing is left over -- including maximum-length data chunks in the middle
    for k in 0..(if ctx.tier_thorough { 400 } else { 60 }) {
        let n = 2 + rng.below(4) as usize;
        let msgs: Vec<String> = (0..n)
            .map(|i| match (k + i) % 6 {
                0 => {
                    let len = *rng.pick(&[255usize, 254, 0, 1, 16, 128]);
                    format!("SD.{}.{}", rng.below(65536), hex_of_bytes(&rng.bytes(len)))
                }
                1 => format!("RS.{}.{}", rng.below(65536), STATES[(k % 13) as usize].1),
                2 => format!("DC.{}", rng.below(65536)),
                3 => format!("AO.{}.{}", rng.below(65536), OPS[(k % 6) as usize].1),
                4 => format!("SD.{}.{}", i * 16, hex_of_bytes(&rng.bytes(255))),
                _ => format!("HE.{}", rng.below(65536)),
            })
            .collect();
        // every fourth stream is preceded by a write of another frame to a writer that fails part-way
        // ... every fourth one by a write elsewhere whose sink panicked (contained on another thread); every fifth stream ends
        // without the last frame's CR LF
        let line = format!("WIRES {}{}{}{}", if k % 4 == 1 { "! " } else { "" }, if k % 4 == 3 { "@ " } else { "" }, if k % 5 == 2 { "$ " } else { "" }, msgs.join(" "));
        if k % 6 == 4 {
            // the same stream written into a sink that tunnels everything it gets in carrier frames of its own
            let line = format!("WIRES & {}", msgs.join(" "));
            let res = ctx.case(line.clone(), true, "stream-through-a-tunnelling-sink");
            let want = format!("{} | left=0", msgs.iter().map(|m| format!("OK {}", m)).collect::<Vec<_>>().join(" ; "));
            ctx.monitor(res == want, "C05-roundtrip", &line[..line.len().min(300)], &res[..res.len().min(200)]);
        }
        let res = ctx.case(line.clone(), true, "stream-of-messages");
        let want = format!("{} | left=0", msgs.iter().map(|m| format!("OK {}", m)).collect::<Vec<_>>().join(" ; "));
        ctx.monitor(res == want, "C05-roundtrip", &line[..line.len().min(300)], &res[..res.len().min(200)]);
    }
    // runs of one repeated byte in data chunks, as whole blocks and at every alignment inside random data
    for (k, d) in run_blocks(&mut rng, ctx.tier_thorough).into_iter().enumerate() {
        let m = format!("SD.{}.{}", [0u32, 16, 0x7F7F, 65535][k % 4], hex_of_bytes(&d));
        wire_case(ctx, m.clone(), "runs-of-one-byte");
        inj(ctx, &m);
    }
    // every data length 0..=255 through the stream functions, as a data chunk and as a frame of an unassigned type
    for len in 0..=255usize {
        let d = rng.bytes(len);
        let msgs = vec![format!("SD.{}.{}", len * 16 % 65536, hex_of_bytes(&d)), format!("UN.{}.9.{}", 3 + len, if d.is_empty() { "-".to_string() } else { hex_of_bytes(&d) }), "HE.3".to_string()];
        let line = format!("WIRES {}", msgs.join(" "));
        let res = ctx.case(line.clone(), true, "stream-every-data-length");
        let want = format!("{} | left=0", msgs.iter().map(|m| format!("OK {}", m)).collect::<Vec<_>>().join(" ; "));
        ctx.monitor(res == want, "C05-roundtrip", &line[..line.len().min(300)], &res[..res.len().min(200)]);
    }
    // many threads at once: a thread must never get another thread's message back
    for (threads, iters) in [(8usize, 3000usize), (16, 1500)] {
        let line = format!("MT {} {}", threads, iters);
        let res = ctx.case(line.clone(), true, "concurrent");
        ctx.monitor(res == "OK", "C05-roundtrip", &line, &res);
    }
    // data chunks whose offset + length crosses 65536
    for off in [0xFFFFu32, 0xFFFE, 0xFFF8, 0xFFF0, 0xFF02, 0xFF01, 0xFF00, 0xFEFF, 0x8000] {
        for len in [0usize, 1, 2, 3, 8, 15, 16, 17, 254, 255] {
            let m = format!("SD.{}.{}", off, hex_of_bytes(&rng.bytes(len)));
            wire_case(ctx, m.clone(), "SD-offset-near-top");
            inj(ctx, &m);
        }
    }
    // short data blocks that collide with other kinds' (type, byte) pairs if the type were ignored
    for b in 0..=255u16 {
        for off in [0u16, 3, 0xFFFF] {
            let m = format!("SD.{}.{}", off, hex_of_bytes(&[b as u8]));
            wire_case(ctx, m.clone(), "SD-len1-all-bytes");
            inj(ctx, &m);
        }
    }
}

// ---------------------------------------------------------------------------------------------

fn bpc(h: u64) -> u64 {
    (h + 7) / 8
}
fn data_bytes(w: u64, h: u64) -> u64 {
    4 + w * bpc(h)
}
fn total_bytes(w: u64, h: u64) -> u64 {
    (data_bytes(w, h) + 15) / 16 * 16
}

pub const SIGN_SIZES: [(u32, u32); 11] =
    [(112, 16), (98, 16), (90, 7), (30, 10), (23, 10), (30, 7), (160, 16), (140, 16), (96, 8), (48, 16), (40, 12)];

fn sizes(ctx: &Ctx, rng: &mut Rng, quick_n: usize) -> Vec<(u32, u32)> {
    let mut v: Vec<(u32, u32)> = vec![];
    if ctx.tier_thorough {
        for w in 0..=20 {
            for h in 0..=33 {
                v.push((w, h));
            }
        }
    } else {
        // boundary sizes always, the rest of the box sampled by seed
        for (w, h) in [(0, 0), (0, 5), (5, 0), (1, 1), (1, 8), (1, 9), (2, 16), (3, 17), (7, 7), (12, 1), (6, 2), (20, 33), (3, 24), (4, 25)] {
            v.push((w, h));
        }
        for _ in 0..quick_n {
            v.push((rng.below(21) as u32, rng.below(34) as u32));
        }
    }
    v.extend_from_slice(&SIGN_SIZES);
    v
}

fn gen_c07(ctx: &mut Ctx) {
    let mut rng = Rng::new(ctx.seed, 7);
    let mut szs = sizes(ctx, &mut rng, 60);
    szs.extend_from_slice(&[(1000, 64), (4000, 16), (255, 255), (65535, 1), (1, 65535), (70000, 3)]);
    for (si, &(w, h)) in szs.iter().enumerate() {
        let (w64, h64) = (w as u64, h as u64);
        let ids: Vec<u8> = if si % 40 == 0 && ctx.tier_thorough { (0..=255).collect() } else { vec![0, 3, 0x10, 0xFF, rng.byte()] };
        for id in ids {
            let line = format!("PN {} {} {}", id, w, h);
            let res = ctx.case(line.clone(), true, "new");
            // independent layout formula
            let mut want = vec![id, 0x10, 0, 0];
            want.resize(data_bytes(w64, h64) as usize, 0);
            want.resize(total_bytes(w64, h64) as usize, 0xFF);
            ctx.monitor(res == hex_of_bytes(&want), "C07-new-layout", &line, "");
        }
        // from_bytes over candidate lengths around the expected one
        let total = total_bytes(w64, h64) as i64;
        let mut lens: Vec<i64> = (total - 17..=total + 17).collect();
        lens.push(0);
        lens.push(total * 2);
        for len in lens {
            if len < 0 || len > 400000 {
                continue;
            }
            let seed = rng.below(1000);
            // over a borrowed slice, and over an owned buffer at and around the accepted length
            for kind in if (len - total).abs() <= 1 || len == 0 { vec!["PB", "PBO"] } else { vec!["PB"] } {
                let line = format!("{} {} {} {} {}", kind, w, h, len, seed);
                let res = ctx.case(line.clone(), true, "from_bytes-length");
                let ok = if len == total {
                    res == format!("OK {}", hex_of_bytes(&pb_bytes(len as usize, seed as usize)))
                } else {
                    res == "ER LEN"
                };
                ctx.monitor(ok, "C07-from-bytes-iff-length", &line, &res);
            }
        }
        // pixel location: set exactly one pixel on a blank page; exactly the documented bit changes
        if w64 * h64 > 0 && w64 * h64 <= 4096 {
            let every = ctx.tier_thorough || w64 * h64 <= 200;
            let mut coords: Vec<(u32, u32)> = vec![];
            if every {
                for x in 0..w {
                    for y in 0..h {
                        coords.push((x, y));
                    }
                }
            } else {
                for _ in 0..64 {
                    coords.push((rng.below(w64) as u32, rng.below(h64) as u32));
                }
                coords.push((w - 1, h - 1));
                coords.push((0, 0));
            }
            for (ci, chunk) in coords.chunks(32).enumerate() {
                // on a fresh page, and on pages built over borrowed / owned buffers whose pixel area is blank but whose
                // header and padding bytes are arbitrary (they must be exposed as given and survive every operation)
                let src = match ci % 3 {
                    0 => "N.9".to_string(),
                    k => {
                        let total = total_bytes(w64, h64) as usize;
                        let data = data_bytes(w64, h64) as usize;
                        let mut b = rng.bytes(total);
                        for x in b[4..data].iter_mut() {
                            *x = 0;
                        }
                        format!("{}.{}", if k == 1 { "B" } else { "O" }, hex_of_bytes(&b))
                    }
                };
                let mut line = format!("PG {} {} {}", w, h, src);
                // on, on again (nothing may change), off, off again (nothing may change)
                for (x, y) in chunk {
                    line.push_str(&format!(" S.{}.{}.1 S.{}.{}.1 S.{}.{}.0 S.{}.{}.0", x, y, x, y, x, y, x, y));
                }
                let res = ctx.case(line.clone(), true, "pixel-location");
                let toks: Vec<&str> = res.split(' ').collect();
                let mut ok = true;
                let mut detail = String::new();
                for (k, (x, y)) in chunk.iter().enumerate() {
                    let idx = 4 + (*x as u64) * bpc(h64) + (*y as u64) / 8;
                    let bit = (*y % 8) as u32;
                    let want_on = format!("{}:{}", idx, 1u32 << bit);
                    let want_off = format!("{}:0", idx);
                    let want = [want_on.as_str(), "=", want_off.as_str(), "="];
                    if (0..4).any(|j| toks.get(4 * k + j) != Some(&want[j])) {
                        ok = false;
                        detail = format!("pixel ({},{}) expected {:?}, got {:?}", x, y, want, &toks[(4 * k).min(toks.len())..(4 * k + 4).min(toks.len())]);
                        break;
                    }
                }
                if ok && !res.ends_with(" eq=1") {
                    ok = false;
                    detail = "the page rebuilt from its own bytes does not equal it (==, hash)".to_string();
                }
                if ok && !src.starts_with("N.") {
                    // every pixel was switched back off: the page must expose exactly the bytes it was built from
                    let given = &src[2..];
                    let end = res.rsplit(' ').nth(1).unwrap_or("");
                    if end != given {
                        ok = false;
                        detail = "the page no longer exposes the bytes it was built from (header or padding changed)".to_string();
                    }
                }
                ctx.monitor(ok, "C07-pixel-location", &line, &detail);
            }
            // the same the other way round: every pixel lit, then one switched off and on again -- exactly its bit goes and
            // comes back, its neighbours in the same byte stay lit (distinct pixels never share a bit)
            for chunk in coords.chunks(32).take(if every { 4 } else { 2 }) {
                let mut line = format!("PG {} {} N.3 A.1", w, h);
                for (x, y) in chunk {
                    line.push_str(&format!(" S.{}.{}.0 S.{}.{}.1", x, y, x, y));
                }
                let res = ctx.case(line.clone(), true, "pixel-location-all-lit");
                let toks: Vec<&str> = res.split(' ').collect();
                let mut ok = true;
                let mut detail = String::new();
                for (k, (x, y)) in chunk.iter().enumerate() {
                    let idx = 4 + (*x as u64) * bpc(h64) + (*y as u64) / 8;
                    let bit = (*y % 8) as u32;
                    let want = [format!("{}:{}", idx, 255 - (1u32 << bit)), format!("{}:255", idx)];
                    if (0..2).any(|j| toks.get(1 + 2 * k + j) != Some(&want[j].as_str())) {
                        ok = false;
                        detail = format!("pixel ({},{}) on an all-lit page: expected {:?}, got {:?}", x, y, want, &toks[(1 + 2 * k).min(toks.len())..(3 + 2 * k).min(toks.len())]);
                        break;
                    }
                }
                ctx.monitor(ok, "C07-pixel-location", &line, &detail);
            }
        }
    }
    // the first edit of a page built over somebody else's bytes is "set all pixels" (either value): header and padding stay
    // as given, the length stays, the page still equals the page rebuilt from its bytes; then single pixels on top
    for (w, h) in [(8u32, 8u32), (90, 7), (40, 12), (3, 7), (12, 8), (2, 17)] {
        let (w64, h64) = (w as u64, h as u64);
        let total = total_bytes(w64, h64) as usize;
        for k in 0..8usize {
            let bytes = rng.bytes(total);
            let v = k % 2;
            let (x, y) = (rng.below(w64) as u32, rng.below(h64) as u32);
            let line = format!("PG {} {} {}.{} A.{} S.{}.{}.{} G.{}.{}", w, h, if k % 4 < 2 { "B" } else { "O" }, hex_of_bytes(&bytes), v, x, y, 1 - v, x, y);
            let res = ctx.case(line.clone(), true, "set-all-as-first-edit");
            let data = data_bytes(w64, h64) as usize;
            let mut want = bytes.clone();
            for b in want[4..data].iter_mut() {
                *b = if v == 1 { 0xFF } else { 0 };
            }
            let idx = (4 + (x as u64) * bpc(h64) + (y as u64) / 8) as usize;
            if v == 1 { want[idx] &= !(1u8 << (y % 8)); } else { want[idx] |= 1u8 << (y % 8); }
            let ok = res.contains(&format!(" {} eq=1", hex_of_bytes(&want)));
            ctx.monitor(ok, "C07-pixel-location", &line, &res[res.len().saturating_sub(120)..]);
        }
    }
    // the first edit of a page built over somebody else's bytes (borrowed, and owned) is a REDUNDANT one: a pixel is set to
    // the value it already has, in a byte where other pixels are lit -- nothing may change
    for (w, h) in [(8u32, 8u32), (90, 7), (40, 12), (7, 10), (3, 17)] {
        let (w64, h64) = (w as u64, h as u64);
        let total = total_bytes(w64, h64) as usize;
        for k in 0..(if ctx.tier_thorough { 96 } else { 24 }) {
            let bytes = rng.bytes(total);
            let (x, y) = (rng.below(w64) as u32, rng.below(h64) as u32);
            let cur = (bytes[(4 + (x as u64) * bpc(h64) + (y as u64) / 8) as usize] >> (y % 8)) & 1;
            let line = format!("PG {} {} {}.{} S.{}.{}.{} G.{}.{}", w, h, if k % 2 == 0 { "B" } else { "O" }, hex_of_bytes(&bytes), x, y, cur, x, y);
            let res = ctx.case(line.clone(), true, "redundant-first-edit");
            let toks: Vec<&str> = res.split(' ').collect();
            let ok = toks.first() == Some(&"=") && toks.get(1) == Some(&cur.to_string().as_str()) && res.contains(&hex_of_bytes(&bytes));
            ctx.monitor(ok, "C07-pixel-location", &line, &res[..res.len().min(120)]);
        }
    }
    gen_c07_extreme(ctx);
}

/// Dimensions at the far end of u32 whose pages are tiny (width 0) or whose padded size is beyond any buffer.
/// One pixel on pages too large to print (PXI): the documented byte and bit, nothing else, neighbours untouched.
fn pxi_cases(ctx: &mut Ctx, monitor: &str) {
    let big = 16_777_216u32; // 2^24: where a 32-bit float stops being exact
    let mut v = vec![(2u32, big + 1, 0u32, big), (2, big + 1, 1, 0), (2, big + 1, 1, big), (3, big + 9, 1, big + 8), (2, 2 * big + 1, 1, 2 * big), (2, big, 1, big - 1), (2, big + 1, 0, big + 1), (2, big + 1, 2, 0)];
    if ctx.tier_thorough {
        v.extend_from_slice(&[(2, big + 17, 1, 5), (2, 4 * big + 1, 1, 4 * big), (5, big + 1, 4, big), (2, big + 7, 0, big + 6), (70000, 9, 69999, 8), (65537, 17, 65536, 16)]);
    }
    for (w, h, x, y) in v {
        let line = format!("PXI {} {} {} {}", w, h, x, y);
        let res = ctx.case(line.clone(), true, "one-pixel-on-a-huge-page");
        let want = if x < w && y < h {
            let (w64, h64, x64, y64) = (w as u64, h as u64, x as u64, y as u64);
            format!(
                "len={} set=[{}:{}] get=1 nbr={}/{}",
                total_bytes(w64, h64),
                4 + x64 * bpc(h64) + y64 / 8,
                1u32 << (y64 % 8),
                if x + 1 < w { "0" } else { "-" },
                if y > 0 { "0" } else { "-" }
            )
        } else {
            "PANIC".to_string()
        };
        ctx.monitor(res == want, monitor, &line, &format!("got [{}] want [{}]", res, want));
    }
}

/// One pixel of a page larger than 4 GiB: the pixel, its neighbours, and single bytes at and around the place the byte
/// offset (computed in 64 bits here) falls, and at that offset reduced modulo 2^32.
fn pxz_cases(ctx: &mut Ctx, monitor: &str) {
    let mut v = vec![(65_537u32, 524_288u32, 65_536u32, 0u32), (65_537, 524_288, 65_536, 524_287), (65_537, 524_288, 65_535, 524_287), (9, u32::MAX, 8, 0), (9, u32::MAX, 8, u32::MAX - 1),
                     (65_537, 524_288, 65_537, 0), (65_537, 524_288, 0, 524_288), (9, u32::MAX, 9, 5), (9, u32::MAX, 0, u32::MAX)];
    if ctx.tier_thorough {
        v.extend_from_slice(&[(70_000, 600_000, 60_000, 77), (1_048_577, 32_776, 1_048_576, 32_775), (9, u32::MAX, 7, u32::MAX - 1), (65_537, 524_288, 65_537, 0), (131_073, 262_144, 131_072, 9), (17, u32::MAX, 16, 12_345)]);
    }
    for (w, h, x, y) in v {
        let (w64, h64, x64, y64) = (w as u64, h as u64, x as u64, y as u64);
        let total = total_bytes(w64, h64);
        let idx = 4 + x64 * bpc(h64) + y64 / 8;
        let wrapped = 4 + ((x64 * bpc(h64)) & 0xFFFF_FFFF) + y64 / 8;
        let wrapped_all = (x64 * bpc(h64) + y64 / 8) & 0xFFFF_FFFF;
        let mut probes: Vec<u64> = vec![idx, idx.saturating_sub(1), idx + 1, wrapped, 4 + wrapped_all, idx & 0xFFFF_FFFF, 0, 3, 4, total - 1, total, 4 + w64 * bpc(h64) - 1];
        probes.dedup();
        let line = format!("PXZ {} {} {} {} {}", w, h, x, y, probes.iter().map(|p| p.to_string()).collect::<Vec<_>>().join(","));
        let res = ctx.case(line.clone(), true, "one-pixel-on-a-page-over-4GiB");
        if res == "UNAVAILABLE" {
            continue;
        }
        let want = if x < w && y < h {
            format!(
                "len={} view=0 get=1 nbr={}/{} bytes={}",
                total,
                if x + 1 < w { "0" } else { "-" },
                if y > 0 { "0" } else { "-" },
                probes.iter().map(|p| if *p >= total { format!("{}:-", p) } else if *p == idx { format!("{}:{}", p, 1u32 << (y64 % 8)) } else { format!("{}:0", p) }).collect::<Vec<_>>().join(",")
            )
        } else {
            "PANIC".to_string()
        };
        ctx.monitor(res == want, monitor, &line, &format!("got [{}] want [{}]", res, want));
    }
}

fn gen_c07_extreme(ctx: &mut Ctx) {
    pxi_cases(ctx, "C07-pixel-location");
    pxz_cases(ctx, "C07-pixel-location");
    // one surplus chunk after a page whose pixels end exactly at a chunk boundary (so the page itself has no padding), and
    // other wrong lengths, with every byte after the header the same value (0xFF = what padding looks like)
    for (w, h) in [(12u32, 8u32), (28, 7), (6, 16), (60, 8), (1, 96), (90, 7), (13, 8)] {
        let total = total_bytes(w as u64, h as u64) as i64;
        for len in [total, total + 16, total + 32, total - 16, total + 1] {
            for fill in [0xFFu8, 0x00, 0x10] {
                if len < 4 {
                    continue;
                }
                let line = format!("PBX {} {} {} {}", w, h, len, fill);
                let res = ctx.case(line.clone(), true, "from_bytes-uniform-content");
                let ok = if len == total { res.starts_with("OK ") && res.len() == 3 + 2 * len as usize } else { res == "ER LEN" };
                ctx.monitor(ok, "C07-from-bytes-iff-length", &line, &res[..res.len().min(80)]);
            }
        }
    }
    let m = u32::MAX;
    for (w, h) in [(0u32, m), (0, m - 1), (0, m - 6), (0, m - 7), (0, m - 8), (m, 0), (0, 1 << 31), (0, 70000), (1, 256), (1, 257), (3, 1000)] {
        let (w64, h64) = (w as u64, h as u64);
        let line = format!("PN 5 {} {}", w, h);
        let res = ctx.case(line.clone(), true, "extreme-dimensions");
        let mut want = vec![5u8, 0x10, 0, 0];
        want.resize(data_bytes(w64, h64) as usize, 0);
        want.resize(total_bytes(w64, h64) as usize, 0xFF);
        ctx.monitor(res == hex_of_bytes(&want), "C07-new-layout", &line, &res[..res.len().min(60)]);
    }
    // large pages, described by their length and byte counts only (PNL): sizes around 2^24 rows, beyond 65535 blocks of
    // 16 bytes, beyond 2^16 columns
    for (w, h) in [(1u32, 16_777_217u32), (1, 16_777_225), (2, 16_777_209), (1, 33_554_434), (65535, 128), (65536, 128), (65535, 129), (70000, 120), (1_048_560, 8), (1_048_561, 8), (131072, 8), (3, 2_796_203)] {
        let (w64, h64) = (w as u64, h as u64);
        let line = format!("PNL 6 {} {}", w, h);
        let res = ctx.case(line.clone(), true, "large-page");
        let want = format!("len={} zeros={} ff={} first=6.16.0.0", total_bytes(w64, h64), data_bytes(w64, h64) - 4, total_bytes(w64, h64) - data_bytes(w64, h64));
        ctx.monitor(res == want, "C07-new-layout", &line, &res);
    }
    // from_bytes where the expected size exceeds 2^32: a small buffer is simply the wrong length
    for (w, h) in [(65536u32, 524288u32), (m, m), (m, 8), (1 << 29, 8), ((1 << 29) + 1, 8), (m, 1), (2, m), (1 << 16, 1 << 19)] {
        for len in [0usize, 4, 16, 32] {
            for kind in ["PB", "PBO"] {
                let line = format!("{} {} {} {} 1", kind, w, h, len);
                let res = ctx.case(line.clone(), true, "extreme-dimensions");
                let total = total_bytes(w as u64, h as u64);
                let ok = if total == len as u64 { res.starts_with("OK ") } else { res == "ER LEN" };
                ctx.monitor(ok, "C07-from-bytes-iff-length", &line, &res);
            }
        }
    }
}

// ---------------------------------------------------------------------------------------------

fn gen_c06(ctx: &mut Ctx) {
    pxi_cases(ctx, "C06-bitmap");
    pxz_cases(ctx, "C06-bitmap");
    // the bounds check also holds in a destructor that runs while the thread is unwinding (child process: the second panic
    // aborts it)
    for (w, h, x, y) in [(8u32, 8u32, 8u32, 0u32), (8, 8, 0, 8), (8, 8, 7, 7), (2, 16, 0, 16), (2, 12, 0, 12), (2, 12, 1, 11), (3, 7, 3, 0), (3, 7, 0, 0)] {
        for op in ["S", "G"] {
            let line = format!("UNW {} {} {} {} {}", w, h, x, y, op);
            let res = ctx.case(line.clone(), true, "while-unwinding");
            let ok = if x < w && y < h { res.starts_with("OK ") } else { res == "ABORT" || res == "UNAVAILABLE" };
            ctx.monitor(ok, "C06-bitmap", &line, &res);
        }
    }
    // a fill (or a single set) as the FIRST edit of a borrowed or owned page whose pixel bytes are uniform: whatever the bytes
    // already look like (all of the fill value, its low or high bits only, alternating bits), every pixel reads the value after
    for &(w, h) in &[(1u32, 7u32), (2, 8), (3, 9), (3, 12), (2, 15), (2, 16), (2, 17), (3, 20), (1, 24), (2, 31), (90, 7), (5, 12)] {
        let (w64, h64) = (w as u64, h as u64);
        let total = total_bytes(w64, h64) as usize;
        for fill in [0x00u8, 0xFF, 0x0F, 0xF0, 0x55, 0xAA, 0x7F, 0x80, 0x01, 0xFE] {
            for v in [0u8, 1] {
                for own in ["B", "O"] {
                    if own == "O" && (w, h) != (3, 12) {
                        continue;
                    }
                    let mut ops = vec![format!("A.{}", v)];
                    for x in 0..w64 {
                        for y in 0..h64 {
                            ops.push(format!("G.{}.{}", x, y));
                        }
                    }
                    let line = format!("PG {} {} {}.{} {}", w, h, own, hex_of_bytes(&vec![fill; total]), ops.join(" "));
                    let res = ctx.case(line.clone(), true, "uniform-bytes-then-fill");
                    let toks: Vec<&str> = res.split(' ').collect();
                    let want = v.to_string();
                    let ok = toks.len() >= ops.len() && toks[1..ops.len()].iter().all(|t| *t == want.as_str());
                    ctx.monitor(ok, "C06-bitmap-refinement", &line, "after set_all_pixels every pixel reads the value");
                }
            }
        }
    }
    let mut rng = Rng::new(ctx.seed, 6);
    let mut szs = sizes(ctx, &mut rng, 40);
    // tall and wide pages: rows and columns beyond 255 / 256 / 65535 must not alias onto lower ones
    szs.extend_from_slice(&[(2, 300), (1, 513), (3, 257), (300, 3), (1, 65537), (65537, 1)]);
    for &(w, h) in &szs {
        let (w64, h64) = (w as u64, h as u64);
        let total = total_bytes(w64, h64) as usize;
        let data = data_bytes(w64, h64) as usize;
        for variant in 0..4 {
            // 0: fresh page, 1: borrowed bytes with arbitrary header/padding/content, 2: borrowed all-ones,
            // 3: an OWNED buffer with arbitrary header/padding/content
            let src = match variant {
                0 => format!("N.{}", rng.byte()),
                1 => format!("B.{}", hex_of_bytes(&rng.bytes(total))),
                2 => format!("B.{}", hex_of_bytes(&vec![0xFFu8; total])),
                _ => format!("O.{}", hex_of_bytes(&rng.bytes(total))),
            };
            let init: Vec<u8> = match variant {
                0 => {
                    let mut v = vec![0u8; total];
                    for b in v.iter_mut().skip(data) {
                        *b = 0xFF;
                    }
                    v
                }
                _ => bytes_of_hex(&src[2..]),
            };
            // abstract bitmap, maintained independently
            let mut bitmap = vec![false; (w64 * h64) as usize];
            for x in 0..w64 {
                for y in 0..h64 {
                    let byte = init[(4 + x * bpc(h64) + y / 8) as usize];
                    bitmap[(x * h64 + y) as usize] = variant != 0 && (byte >> (y % 8)) & 1 == 1;
                }
            }
            let mut ops: Vec<String> = vec![];
            let mut expect: Vec<Option<String>> = vec![]; // expected token where the bitmap determines it
            let nops = if w64 * h64 == 0 { 6 } else { 40 };
            for _ in 0..nops {
                match rng.below(10) {
                    0 => {
                        let v = rng.chance(1, 2);
                        ops.push(format!("A.{}", v as u8));
                        expect.push(None);
                        for b in bitmap.iter_mut() {
                            *b = v;
                        }
                    }
                    1 | 2 => {
                        // out of bounds by a little or a lot
                        let (x, y) = match rng.below(6) {
                            0 => (w, rng.below(h64.max(1)) as u32),
                            1 => (rng.below(w64.max(1)) as u32, h),
                            2 => (w + 1, h + 1),
                            3 => (u32::MAX, 0),
                            4 => (0, u32::MAX),
                            _ => (w, h),
                        };
                        if rng.chance(1, 2) {
                            ops.push(format!("S.{}.{}.{}", x, y, rng.below(2)));
                        } else {
                            ops.push(format!("G.{}.{}", x, y));
                        }
                        // in bounds only if w,h == 0 edge cases make x<w false anyway
                        expect.push(Some("P".to_string()));
                    }
                    3 | 4 => {
                        if w64 * h64 == 0 {
                            ops.push("G.0.0".to_string());
                            expect.push(Some("P".to_string()));
                        } else {
                            let (x, y) = (rng.below(w64), rng.below(h64));
                            ops.push(format!("G.{}.{}", x, y));
                            expect.push(Some((bitmap[(x * h64 + y) as usize] as u8).to_string()));
                        }
                    }
                    _ => {
                        if w64 * h64 == 0 {
                            ops.push("S.0.0.1".to_string());
                            expect.push(Some("P".to_string()));
                        } else {
                            let (x, y) = (rng.below(w64), rng.below(h64));
                            let v = rng.chance(1, 2);
                            ops.push(format!("S.{}.{}.{}", x, y, v as u8));
                            expect.push(None);
                            bitmap[(x * h64 + y) as usize] = v;
                        }
                    }
                }
            }
            // finally read back every pixel (bounded for big pages)
            let mut readback: Vec<(u64, u64)> = vec![];
            if w64 * h64 <= 700 {
                for x in 0..w64 {
                    for y in 0..h64 {
                        readback.push((x, y));
                    }
                }
            } else {
                for _ in 0..300 {
                    readback.push((rng.below(w64), rng.below(h64)));
                }
            }
            for (x, y) in &readback {
                ops.push(format!("G.{}.{}", x, y));
                expect.push(Some((bitmap[(x * h64 + y) as usize] as u8).to_string()));
            }
            let line = format!("PG {} {} {} {}", w, h, src, ops.join(" "));
            let res = ctx.case(line.clone(), true, ["fresh", "borrowed-random", "borrowed-ones", "owned-random"][variant]);
            let toks: Vec<&str> = res.split(' ').collect();
            let mut ok = true;
            let mut detail = String::new();
            for (i, e) in expect.iter().enumerate() {
                if let Some(e) = e {
                    if toks.get(i) != Some(&e.as_str()) {
                        ok = false;
                        detail = format!("op {} [{}]: bitmap says {} got {:?}", i, ops[i], e, toks.get(i));
                        break;
                    }
                } else if let Some(t) = toks.get(i) {
                    // a set/set-all must not panic in bounds, and must not touch header or padding
                    if t.starts_with('P') || t.starts_with('L') {
                        ok = false;
                        detail = format!("op {} [{}] gave {}", i, ops[i], t);
                        break;
                    }
                    if *t != "=" {
                        for ch in t.split(',') {
                            let idx: usize = ch.split(':').next().unwrap().parse().unwrap();
                            if idx < 4 || idx >= data {
                                ok = false;
                                detail = format!("op {} [{}] changed byte {} outside the pixel area", i, ops[i], idx);
                            }
                        }
                    }
                }
            }
            ctx.monitor(ok, "C06-bitmap-refinement", &line, &detail);
        }
        // every pixel set and cleared once: exactly one bit of one byte changes each time
        if w64 * h64 > 0 && (ctx.tier_thorough || w64 * h64 <= 330) {
            let mut coords = vec![];
            for x in 0..w {
                for y in 0..h {
                    coords.push((x, y));
                }
            }
            for chunk in coords.chunks(40) {
                let mut line = format!("PG {} {} B.{}", w, h, hex_of_bytes(&rng.bytes(total)));
                for (x, y) in chunk {
                    line.push_str(&format!(" S.{}.{}.1 G.{}.{} S.{}.{}.0 G.{}.{}", x, y, x, y, x, y, x, y));
                }
                let res = ctx.case(line.clone(), true, "every-pixel");
                let toks: Vec<&str> = res.split(' ').collect();
                let mut ok = true;
                for k in 0..chunk.len() {
                    if toks[4 * k + 1] != "1" || toks[4 * k + 3] != "0" || toks[4 * k].contains(',') || toks[4 * k + 2].contains(',') {
                        ok = false;
                    }
                }
                ctx.monitor(ok, "C06-get-after-set", &line, "");
            }
        }
    }
}

// ---------------------------------------------------------------------------------------------

fn gen_c19(ctx: &mut Ctx) {
    let mut rng = Rng::new(ctx.seed, 19);
    const KEYS: [(u8, u8); 11] = [(4, 0x47), (4, 0x4D), (4, 0x20), (4, 0x62), (4, 0x61), (4, 0x26), (8, 0xB1), (8, 0xB2), (8, 0xB4), (8, 0xB5), (8, 0xB9)];
    for i in 0..11usize {
        let line = format!("STT {}", i);
        let res = ctx.case(line.clone(), true, "type-block");
        let p: Vec<&str> = res.split(' ').collect();
        let b = bytes_of_hex(p[0]);
        let (w, h): (u32, u32) = (p[1].parse().unwrap(), p[2].parse().unwrap());
        let mut ok = b.len() == 16 && (b[0], b[1]) == KEYS[i] && (w, h) == SIGN_SIZES[i];
        if ok {
            if b[0] == 4 {
                let ws: u32 = b[5..9].iter().map(|x| *x as u32).sum();
                ok = b[4] as u32 == h && ws == w && b[9] as u32 == 8 * ((h + 7) / 8);
            } else {
                ok = b[5] as u32 == h && b[7] as u32 == w && (b[8] as u32) * (b[10] as u32) + (b[9] as u32) * (b[11] as u32) == w;
            }
        }
        ctx.monitor(ok, "C19-block-fields", &line, &res);
        let line2 = format!("ST {}", p[0]);
        let res2 = ctx.case(line2.clone(), true, "type-block-roundtrip");
        ctx.monitor(res2 == format!("OK {}", i), "C19-roundtrip", &line2, &res2);
        // what a virtual sign derives from the block: pages of exactly the type's size are accepted
        let (w64, h64) = (w as u64, h as u64);
        let total = total_bytes(w64, h64) as usize;
        let mut page = vec![0x5Au8; total];
        page[0] = 1;
        let mut msgs = vec!["RO.7.RCF".to_string(), format!("SD.0.{}", p[0]), "DC.1".to_string(), "RO.7.RPX".to_string()];
        let mut n = 0;
        for (k, c) in page.chunks(16).enumerate() {
            msgs.push(format!("SD.{}.{}", k * 16, hex_of_bytes(c)));
            n += 1;
        }
        msgs.push(format!("DC.{}", n));
        msgs.push("QS.7".to_string());
        let line3 = format!("VS 7 M {}", msgs.join(" "));
        let res3 = ctx.case(line3.clone(), true, "vsign-derives-size");
        let want_pages = format!("# {}.{}.{}", w, h, hex_of_bytes(&page));
        ctx.monitor(res3.ends_with(&want_pages) && res3.contains(&format!("RS.7.PRX/PRX.{}.1.", i)), "C19-vsign-derives", &line3, "");
        // ... and still after a pixel transfer that failed (one chunk lost, count as announced) and is simply repeated, as
        // the controller does, without configuring again: what the block said about the size stays in force
        let chunks: Vec<String> = page.chunks(16).enumerate().map(|(k, c)| format!("SD.{}.{}", k * 16, hex_of_bytes(c))).collect();
        for lost in [chunks.len() - 1, 0, chunks.len() / 2] {
            let mut msgs = vec!["RO.7.RCF".to_string(), format!("SD.0.{}", p[0]), "DC.1".to_string(), "RO.7.RPX".to_string()];
            msgs.extend(chunks.iter().enumerate().filter(|(k, _)| *k != lost).map(|(_, c)| c.clone()));
            msgs.push(format!("DC.{}", n));
            msgs.push("QS.7".to_string());
            msgs.push("RO.7.RPX".to_string());
            msgs.extend(chunks.iter().cloned());
            msgs.push(format!("DC.{}", n));
            msgs.push("QS.7".to_string());
            let line4 = format!("VS 7 M {}", msgs.join(" "));
            let res4 = ctx.case(line4.clone(), true, "vsign-derives-size-after-failed-transfer");
            ctx.monitor(res4.ends_with(&want_pages) && res4.contains(&format!("RS.7.PRX/PRX.{}.1.", i)) && res4.contains("RS.7.PFL/PFL."), "C19-vsign-derives", &line4, "");
        }
    }
    // all 65536 (family, id) pairs, remaining 14 bytes varied
    let fillers = if ctx.tier_thorough { 8 } else { 1 };
    for b0 in 0..=255u16 {
        for b1 in 0..=255u16 {
            for k in 0..fillers {
                let mut b = vec![b0 as u8, b1 as u8];
                match k {
                    0 => b.extend_from_slice(&[0u8; 14]),
                    1 => b.extend_from_slice(&[0xFFu8; 14]),
                    _ => b.extend(rng.bytes(14)),
                }
                let line = format!("ST {}", hex_of_bytes(&b));
                let res = ctx.case(line.clone(), true, "all-family-id-pairs");
                let want = match KEYS.iter().position(|k| *k == (b0 as u8, b1 as u8)) {
                    Some(i) => format!("OK {}", i),
                    None => "ER UNKNOWN".to_string(),
                };
                ctx.monitor(res == want, "C19-accept-iff-key", &line, &res);
            }
        }
    }
    // the 11 supported (family, id) pairs with adversarial remaining bytes: every single-byte variation of the real
    // block over boundary values, all-0xFF and random fillers -- decoding must stay total and accept by key alone;
    // the same blocks are digested by a virtual sign (which calls the decoder on every accepted block)
    let block_hex: Vec<String> = (0..11usize).map(|i| crate::eval::eval_case(&format!("STT {}", i)).split(' ').next().unwrap().to_string()).collect();
    for i in 0..11usize {
        let real = bytes_of_hex(&block_hex[i]);
        if real.len() != 16 {
            continue;
        }
        let mut variants: Vec<Vec<u8>> = vec![];
        for pos in 2..16usize {
            for v in [0u8, 1, 0x0F, 0x10, 0x11, 0x7F, 0x80, 0xFF] {
                if real[pos] != v {
                    let mut b = real.clone();
                    b[pos] = v;
                    variants.push(b);
                }
            }
        }
        let mut ff = vec![0xFFu8; 16];
        ff[0] = real[0];
        ff[1] = real[1];
        variants.push(ff);
        for _ in 0..(if ctx.tier_thorough { 64 } else { 8 }) {
            let mut b = rng.bytes(16);
            b[0] = real[0];
            b[1] = real[1];
            variants.push(b);
        }
        for (vi, b) in variants.iter().enumerate() {
            let line = format!("ST {}", hex_of_bytes(b));
            let res = ctx.case(line.clone(), true, "known-key-varied-fields");
            ctx.monitor(res == format!("OK {}", i), "C19-accept-iff-key", &line, &res);
            if ctx.tier_thorough || vi % 4 == i % 4 {
                let line = format!("VSL 7 A RO.7.RCF SD.0.{} DC.1 QS.7", hex_of_bytes(b));
                let res = ctx.case(line.clone(), true, "vsign-digests-varied-block");
                ctx.monitor(!res.contains("PANIC"), "C19-decode-total", &line, &res);
            }
        }
    }
    // a sign configured as one type, reset, then configured as another: what it derives is the NEW block's size
    // (all 11 x 11 ordered pairs; reset by StartReset/FinishReset or by Goodbye)
    for i in 0..11usize {
        for j in 0..11usize {
            if !ctx.tier_thorough && (i * 11 + j) % 3 != (ctx.seed % 3) as usize && i / 6 == j / 6 {
                continue;
            }
            let (w, h) = SIGN_SIZES[j];
            let total = total_bytes(w as u64, h as u64) as usize;
            let mut page = vec![0xA5u8; total];
            page[0] = 2;
            let mut msgs = vec!["RO.7.RCF".to_string(), format!("SD.0.{}", block_hex[i]), "DC.1".to_string(), "RO.7.RPX".to_string(), "SD.0.00".to_string()];
            if (i + j) % 2 == 0 {
                msgs.push("RO.7.SRS".to_string());
                msgs.push("RO.7.FRS".to_string());
            } else {
                msgs.push("GB.7".to_string());
            }
            msgs.extend(["RO.7.RCF".to_string(), format!("SD.0.{}", block_hex[j]), "DC.1".to_string(), "RO.7.RPX".to_string()]);
            let mut n = 0;
            for (k, c) in page.chunks(16).enumerate() {
                msgs.push(format!("SD.{}.{}", k * 16, hex_of_bytes(c)));
                n += 1;
            }
            msgs.push(format!("DC.{}", n));
            msgs.push("QS.7".to_string());
            let line = format!("VSL 7 M {}", msgs.join(" "));
            let res = ctx.case(line.clone(), true, "vsign-reconfigured");
            let want_pages = format!("# {}.{}.{}", w, h, hex_of_bytes(&page));
            ctx.monitor(res.ends_with(&want_pages) && res.contains(&format!("RS.7.PRX/PRX.{}.1.", j)), "C19-vsign-derives", &line, &res[..res.len().min(120)]);
        }
    }
    // lengths that are 16 only modulo a power of two, and other long inputs, starting with a supported key or not
    for len in [272usize, 528, 784, 4112, 65552, 65536 + 272, 17, 32, 48, 255, 256, 1000] {
        for k in 0..4usize {
            let mut b = rng.bytes(len);
            if k < 3 {
                let key = KEYS[(len + k * 4) % 11];
                b[0] = key.0;
                b[1] = key.1;
            }
            let line = format!("ST {}", hex_of_bytes(&b));
            let res = ctx.case(line.clone(), true, "long-inputs");
            let short = if line.len() > 200 { format!("{}... ({} bytes)", &line[..200], len) } else { line.clone() };
            ctx.monitor(res == "ER LEN", "C19-length", &short, &res);
        }
    }
    // what a sign derives from the block must not depend on earlier, failed or abandoned configuration attempts:
    // (a) block delivered, transfer fails verification (wrong count / duplicated block), retried with the same type and
    // no reset; (b) block delivered, transfer cut off before the count, then reset or goodbye, then configured normally
    for i in 0..11usize {
        let (w, h) = SIGN_SIZES[i];
        let total = total_bytes(w as u64, h as u64) as usize;
        let mut page = vec![0x3Cu8; total];
        page[0] = 9;
        let block = &block_hex[i];
        let other = &block_hex[(i + 5) % 11];
        // a complete earlier life as ANOTHER type, with a page stored, ended by a reset or a goodbye
        let (ow, oh) = SIGN_SIZES[(i + 5) % 11];
        let ototal = total_bytes(ow as u64, oh as u64) as usize;
        let opage = vec![0x11u8; ototal];
        let mut life: Vec<String> = vec!["RO.7.RCF".into(), format!("SD.0.{}", other), "DC.1".into(), "RO.7.RPX".into()];
        for (k, c) in opage.chunks(16).enumerate() {
            life.push(format!("SD.{}.{}", k * 16, hex_of_bytes(c)));
        }
        life.push(format!("DC.{}", (ototal + 15) / 16));
        life.push("PC.7".into());
        let mut life_reset = life.clone();
        life_reset.extend(["RO.7.SRS".to_string(), "RO.7.FRS".to_string()]);
        let mut life_bye = life.clone();
        life_bye.push("GB.7".into());
        let preludes: Vec<(Vec<String>, &str)> = vec![
            (life_reset, "earlier-life-as-other-type-then-reset"),
            (life_bye, "earlier-life-as-other-type-then-goodbye"),
            (vec!["RO.7.RCF".into(), format!("SD.0.{}", block), "DC.2".into(), "QS.7".into()], "failed-count-then-retry"),
            (vec!["RO.7.RCF".into(), format!("SD.0.{}", block), format!("SD.0.{}", block), "DC.1".into(), "QS.7".into()], "duplicated-block-then-retry"),
            (vec!["RO.7.RCF".into(), format!("SD.0.{}", other), "DC.3".into(), "QS.7".into()], "failed-other-type-then-retry"),
            (vec!["RO.7.RCF".into(), format!("SD.0.{}", block), "RO.7.SRS".into(), "RO.7.FRS".into()], "cut-off-then-reset"),
            (vec!["RO.7.RCF".into(), format!("SD.0.{}", block), "GB.7".into()], "cut-off-then-goodbye"),
            (vec!["RO.7.RCF".into(), format!("SD.0.{}", other), "GB.7".into()], "cut-off-other-type-then-goodbye"),
        ];
        for (pi, (prelude, class)) in preludes.into_iter().enumerate() {
            if !ctx.tier_thorough && (i + pi) % 2 == (ctx.seed % 2) as usize && pi >= 2 {
                continue;
            }
            let mut msgs = prelude;
            msgs.extend(["RO.7.RCF".to_string(), format!("SD.0.{}", block), "DC.1".to_string(), "QS.7".to_string(), "RO.7.RPX".to_string()]);
            let mut n = 0;
            for (k, c) in page.chunks(16).enumerate() {
                msgs.push(format!("SD.{}.{}", k * 16, hex_of_bytes(c)));
                n += 1;
            }
            msgs.push(format!("DC.{}", n));
            msgs.push("QS.7".to_string());
            let line = format!("VSL 7 A {}", msgs.join(" "));
            let res = ctx.case(line.clone(), true, class);
            let want_pages = format!("# {}.{}.{}", w, h, hex_of_bytes(&page));
            ctx.monitor(res.ends_with(&want_pages) && res.contains(&format!("RS.7.PRX/PRX.{}.1.", i)), "C19-vsign-derives", &line[..line.len().min(300)], &res[..res.len().min(120)]);
        }
    }
    // more than one block inside ONE configuration transfer that succeeds (count = 2): the LAST block decides
    for i in 0..11usize {
        let (w, h) = SIGN_SIZES[i];
        let total = total_bytes(w as u64, h as u64) as usize;
        let mut page = vec![0x5Bu8; total];
        page[0] = 4;
        for first in [i, (i + 3) % 11, (i + 7) % 11] {
            let mut msgs: Vec<String> = vec!["RO.7.RCF".into(), format!("SD.0.{}", block_hex[first]), format!("SD.0.{}", block_hex[i]), "DC.2".into(), "QS.7".into(), "RO.7.RPX".into()];
            for (k, c) in page.chunks(16).enumerate() {
                msgs.push(format!("SD.{}.{}", k * 16, hex_of_bytes(c)));
            }
            msgs.push(format!("DC.{}", (total + 15) / 16));
            msgs.push("QS.7".to_string());
            let line = format!("VSL 7 M {}", msgs.join(" "));
            let res = ctx.case(line.clone(), true, "two-blocks-in-one-transfer");
            let want_pages = format!("# {}.{}.{}", w, h, hex_of_bytes(&page));
            ctx.monitor(res.ends_with(&want_pages) && res.contains(&format!("RS.7.PRX/PRX.{}.1.", i)), "C19-vsign-derives", &line[..line.len().min(300)], &res[..res.len().min(120)]);
        }
    }
    // two signs on one bus configured one after the other ("configure all, then load all"): each derives its size
    // from its own block
    for i in 0..11usize {
        let j = (i + 4) % 11;
        let mut msgs: Vec<String> = vec!["RO.7.RCF".into(), format!("SD.0.{}", block_hex[i]), "DC.1".into(), "RO.9.RCF".into(), format!("SD.0.{}", block_hex[j]), "DC.1".into()];
        for (a, t) in [(7u16, i), (9u16, j)] {
            let (w, h) = SIGN_SIZES[t];
            let total = total_bytes(w as u64, h as u64) as usize;
            let mut page = vec![0x6Du8; total];
            page[0] = if a == 7 { 4 } else { 8 };
            msgs.push(format!("RO.{}.RPX", a));
            for (k, c) in page.chunks(16).enumerate() {
                msgs.push(format!("SD.{}.{}", k * 16, hex_of_bytes(c)));
            }
            msgs.push(format!("DC.{}", (total + 15) / 16));
            msgs.push(format!("QS.{}", a));
        }
        let line = format!("BUS 2 7 M 9 A {}", msgs.join(" "));
        let res = ctx.case(line.clone(), true, "two-signs-configured-in-turn");
        let last = res.split(' ').filter(|s| s.contains("RS.9.")).last().unwrap_or("");
        ctx.monitor(last.contains(&format!("PRX.{}.1.", i)) && last.contains(&format!("PRX.{}.1.", j)), "C19-vsign-derives", &line[..line.len().min(300)], &last[..last.len().min(160)]);
    }
    // all lengths 0..=40 over all byte values; valid prefixes included
    for len in 0..=40usize {
        for k in 0..(if ctx.tier_thorough { 200 } else { 30 }) {
            let mut b = rng.bytes(len);
            if k % 3 == 0 && len >= 2 {
                let key = KEYS[(k / 3) % 11];
                b[0] = key.0;
                b[1] = key.1;
            }
            let line = format!("ST {}", hex_of_bytes(&b));
            let res = ctx.case(line.clone(), true, "all-lengths");
            let ok = if len != 16 { res == "ER LEN" } else { res.starts_with("OK ") || res == "ER UNKNOWN" };
            ctx.monitor(ok, "C19-length", &line, &res);
        }
    }
}
