//! Line protocol shared with the OCaml oracle (oracle/driver.ml): parsing and canonical printing.
use flipdot_core::{
    Address, ChunkCount, Data, Frame, FrameError, Message, MsgType, Offset, Operation, Page, PageFlipStyle, SignType, State,
};
use flipdot_testing::VirtualSign;

pub const STATES: [(State, &str); 13] = [
    (State::Unconfigured, "UNC"),
    (State::ConfigInProgress, "CIP"),
    (State::ConfigReceived, "CRX"),
    (State::ConfigFailed, "CFL"),
    (State::PixelsInProgress, "PIP"),
    (State::PixelsReceived, "PRX"),
    (State::PixelsFailed, "PFL"),
    (State::PageLoaded, "PLD"),
    (State::PageLoadInProgress, "PLP"),
    (State::PageShown, "PSH"),
    (State::PageShowInProgress, "PSP"),
    (State::ShowingPages, "SHP"),
    (State::ReadyToReset, "RTR"),
];

pub const OPS: [(Operation, &str); 6] = [
    (Operation::ReceiveConfig, "RCF"),
    (Operation::ReceivePixels, "RPX"),
    (Operation::ShowLoadedPage, "SLP"),
    (Operation::LoadNextPage, "LNP"),
    (Operation::StartReset, "SRS"),
    (Operation::FinishReset, "FRS"),
];

pub const SIGN_TYPES: [SignType; 11] = [
    SignType::Max3000Front112x16,
    SignType::Max3000Front98x16,
    SignType::Max3000Side90x7,
    SignType::Max3000Rear30x10,
    SignType::Max3000Rear23x10,
    SignType::Max3000Dash30x7,
    SignType::HorizonFront160x16,
    SignType::HorizonFront140x16,
    SignType::HorizonSide96x8,
    SignType::HorizonRear48x16,
    SignType::HorizonDash40x12,
];

pub fn str_state(s: State) -> &'static str {
    STATES.iter().find(|(x, _)| *x == s).map(|(_, n)| *n).unwrap_or("???")
}
pub fn str_op(o: Operation) -> &'static str {
    OPS.iter().find(|(x, _)| *x == o).map(|(_, n)| *n).unwrap_or("???")
}
pub fn state_of_str(s: &str) -> State {
    STATES.iter().find(|(_, n)| *n == s).map(|(x, _)| *x).expect("bad state")
}
pub fn op_of_str(s: &str) -> Operation {
    OPS.iter().find(|(_, n)| *n == s).map(|(x, _)| *x).expect("bad op")
}
pub fn st_index(t: SignType) -> usize {
    SIGN_TYPES.iter().position(|x| *x == t).expect("unknown sign type")
}
pub fn str_type(t: Option<SignType>) -> String {
    match t {
        None => "-".to_string(),
        Some(t) => st_index(t).to_string(),
    }
}

pub fn hex_of_bytes(b: &[u8]) -> String {
    if b.is_empty() {
        return "-".to_string();
    }
    let mut s = String::with_capacity(b.len() * 2);
    for x in b {
        s.push(char::from(b"0123456789ABCDEF"[(x >> 4) as usize]));
        s.push(char::from(b"0123456789ABCDEF"[(x & 15) as usize]));
    }
    s
}

fn hv(c: u8) -> u8 {
    match c {
        b'0'..=b'9' => c - 48,
        b'A'..=b'F' => c - 55,
        b'a'..=b'f' => c - 87,
        _ => panic!("bad hex"),
    }
}
pub fn bytes_of_hex(s: &str) -> Vec<u8> {
    if s == "-" {
        return vec![];
    }
    let b = s.as_bytes();
    (0..b.len() / 2).map(|i| 16 * hv(b[2 * i]) + hv(b[2 * i + 1])).collect()
}

pub fn str_frame(f: &Frame<'_>) -> String {
    format!("{}.{}.{}", f.address().0, f.message_type().0, hex_of_bytes(f.data()))
}

pub fn str_msg(m: &Message<'_>) -> String {
    match m {
        Message::SendData(o, d) => format!("SD.{}.{}", o.0, hex_of_bytes(d.get())),
        Message::DataChunksSent(c) => format!("DC.{}", c.0),
        Message::Hello(a) => format!("HE.{}", a.0),
        Message::QueryState(a) => format!("QS.{}", a.0),
        Message::ReportState(a, s) => format!("RS.{}.{}", a.0, str_state(*s)),
        Message::RequestOperation(a, o) => format!("RO.{}.{}", a.0, str_op(*o)),
        Message::AckOperation(a, o) => format!("AO.{}.{}", a.0, str_op(*o)),
        Message::PixelsComplete(a) => format!("PC.{}", a.0),
        Message::Goodbye(a) => format!("GB.{}", a.0),
        Message::Unknown(f) => format!("UN.{}", str_frame(f)),
        _ => "???".to_string(),
    }
}
pub fn str_omsg(m: &Option<Message<'_>>) -> String {
    match m {
        None => "N".to_string(),
        Some(m) => str_msg(m),
    }
}

fn num16(s: &str) -> u16 {
    s.parse::<u16>().expect("bad u16")
}

pub fn msg_of_str(s: &str) -> Message<'static> {
    let p: Vec<&str> = s.split('.').collect();
    match p.as_slice() {
        ["SD", o, d] => Message::SendData(Offset(num16(o)), Data::try_new(bytes_of_hex(d)).expect("data too long")),
        ["DC", c] => Message::DataChunksSent(ChunkCount(num16(c))),
        ["HE", a] => Message::Hello(Address(num16(a))),
        ["QS", a] => Message::QueryState(Address(num16(a))),
        ["RS", a, st] => Message::ReportState(Address(num16(a)), state_of_str(st)),
        ["RO", a, o] => Message::RequestOperation(Address(num16(a)), op_of_str(o)),
        ["AO", a, o] => Message::AckOperation(Address(num16(a)), op_of_str(o)),
        ["PC", a] => Message::PixelsComplete(Address(num16(a))),
        ["GB", a] => Message::Goodbye(Address(num16(a))),
        ["UN", a, t, d] => Message::Unknown(Frame::new(
            Address(num16(a)),
            MsgType(t.parse::<u8>().expect("bad u8")),
            Data::try_new(bytes_of_hex(d)).expect("data too long"),
        )),
        _ => panic!("bad msg {}", s),
    }
}

/// Deep copy with a 'static lifetime.
pub fn own_msg(m: &Message<'_>) -> Message<'static> {
    msg_of_str(&str_msg(m))
}

pub fn str_ferr(e: &FrameError) -> String {
    match e {
        FrameError::InvalidFrame { .. } => "ER INVALID".to_string(),
        FrameError::FrameDataMismatch { expected, actual, .. } => format!("ER MISMATCH {} {}", expected, actual),
        FrameError::BadChecksum { expected, actual, .. } => format!("ER BADCK {} {}", expected, actual),
        FrameError::DataTooLong { .. } => "ER TOOLONG".to_string(),
        FrameError::Io { .. } => "ER IO".to_string(),
        _ => "ER ???".to_string(),
    }
}

pub fn str_page(p: &Page<'_>) -> String {
    format!("{}.{}.{}", p.width(), p.height(), hex_of_bytes(p.as_bytes()))
}
pub fn str_pages(ps: &[Page<'_>]) -> String {
    if ps.is_empty() {
        "-".to_string()
    } else {
        ps.iter().map(str_page).collect::<Vec<_>>().join("+")
    }
}
pub fn page_of_str(s: &str) -> Page<'static> {
    let p: Vec<&str> = s.split('.').collect();
    match p.as_slice() {
        [w, h, b] => Page::from_bytes(w.parse().unwrap(), h.parse().unwrap(), bytes_of_hex(b)).expect("bad page literal"),
        _ => panic!("bad page {}", s),
    }
}
/// Like pages_of_str, but a literal whose byte length Page::from_bytes refuses is reported instead of panicking.
pub fn try_pages_of_str(s: &str) -> Option<Vec<Page<'static>>> {
    if s == "-" {
        return Some(vec![]);
    }
    let mut out = vec![];
    for lit in s.split('+') {
        let p: Vec<&str> = lit.split('.').collect();
        match p.as_slice() {
            [w, h, b] => match Page::from_bytes(w.parse().unwrap(), h.parse().unwrap(), bytes_of_hex(b)) {
                Ok(pg) => out.push(pg),
                Err(_) => return None,
            },
            _ => panic!("bad page {}", lit),
        }
    }
    Some(out)
}
pub fn pages_of_str(s: &str) -> Vec<Page<'static>> {
    if s == "-" {
        vec![]
    } else {
        // pages are built over owned buffers or as views of borrowed ones (leaked: the harness is short-lived),
        // alternating by position and content, so that both constructions are sent through the controller
        // every third list (decided by its content): all pages are views of consecutive regions of ONE buffer, back to back
        let lits: Vec<Vec<&str>> = s.split('+').map(|lit| lit.split('.').collect()).collect();
        let all: Vec<Vec<u8>> = lits.iter().map(|p| bytes_of_hex(p[2])).collect();
        let total: usize = all.iter().map(|b| b.iter().map(|x| *x as usize).sum::<usize>()).sum();
        if lits.len() >= 2 && (lits.len() + total) % 3 == 0 {
            let buf: &'static [u8] = Box::leak(all.concat().into_boxed_slice());
            let mut at = 0usize;
            return lits
                .iter()
                .zip(all.iter())
                .map(|(p, b)| {
                    let view = &buf[at..at + b.len()];
                    at += b.len();
                    Page::from_bytes(p[0].parse().unwrap(), p[1].parse().unwrap(), view).expect("bad page literal")
                })
                .collect();
        }
        s.split('+')
            .enumerate()
            .map(|(i, lit)| {
                let p: Vec<&str> = lit.split('.').collect();
                let bytes = bytes_of_hex(p[2]);
                if (i + bytes.iter().map(|b| *b as usize).sum::<usize>()) % 2 == 0 {
                    let leaked: &'static [u8] = Box::leak(bytes.into_boxed_slice());
                    Page::from_bytes(p[0].parse().unwrap(), p[1].parse().unwrap(), leaked).expect("bad page literal")
                } else {
                    page_of_str(lit)
                }
            })
            .collect()
    }
}

/// The same hash computed from page literals `w.h.hexbytes` WITHOUT going through the library's Page type.
pub fn hash_page_literals(lits: &[String]) -> String {
    let mut h: u64 = 0xcbf29ce484222325;
    let mut add = |v: u64| {
        h = (h ^ v).wrapping_mul(1099511628211);
    };
    for l in lits {
        let q: Vec<&str> = l.split('.').collect();
        let bytes = bytes_of_hex(q[2]);
        add(q[0].parse::<u64>().unwrap());
        add(q[1].parse::<u64>().unwrap());
        add(bytes.len() as u64);
        for b in &bytes {
            add(*b as u64);
        }
    }
    format!("{:x}", h)
}
pub fn hash_pages(ps: &[Page<'_>]) -> String {
    let mut h: u64 = 0xcbf29ce484222325;
    let mut add = |v: u64| {
        h = (h ^ v).wrapping_mul(1099511628211);
    };
    for p in ps {
        add(p.width() as u64);
        add(p.height() as u64);
        add(p.as_bytes().len() as u64);
        for b in p.as_bytes() {
            add(*b as u64);
        }
    }
    format!("{:x}", h)
}

pub fn diff_bytes(before: &[u8], after: &[u8]) -> String {
    if before.len() != after.len() {
        return format!("L{}", after.len());
    }
    let d: Vec<String> = before
        .iter()
        .zip(after.iter())
        .enumerate()
        .filter(|(_, (x, y))| x != y)
        .map(|(i, (_, y))| format!("{}:{}", i, y))
        .collect();
    if d.is_empty() {
        "=".to_string()
    } else {
        d.join(",")
    }
}

pub fn style_of_str(s: &str) -> PageFlipStyle {
    match s {
        "A" => PageFlipStyle::Automatic,
        "M" => PageFlipStyle::Manual,
        _ => panic!("bad style"),
    }
}
pub fn str_style(s: PageFlipStyle) -> &'static str {
    match s {
        PageFlipStyle::Automatic => "A",
        PageFlipStyle::Manual => "M",
    }
}

pub fn obs(s: &VirtualSign<'_>) -> String {
    format!(
        "{}.{}.{}.{}",
        str_state(s.state()),
        str_type(s.sign_type()),
        s.pages().len(),
        hash_pages(s.pages())
    )
}

pub fn pb_bytes(len: usize, seed: usize) -> Vec<u8> {
    (0..len).map(|i| ((i * 37 + seed * 11 + 5) & 255) as u8).collect()
}
