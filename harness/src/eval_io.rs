//! I/O-level cases: Frame::read/write over instrumented streams (RD, WR), SerialSignBus (SB, TM),
//! Odk (OD), the full serial path (WB) and port setup (PT).
use std::cell::RefCell;
use std::collections::VecDeque;
use std::io::{self, Read, Write};
use std::rc::Rc;
use std::time::{Duration, Instant};

use flipdot_core::{Frame, FrameError, SignBus};
use flipdot_serial::SerialSignBus;
use flipdot_testing::{Odk, OdkError, VirtualSignBus};
use serial_core::{BaudRate, CharSize, FlowControl, Parity, PortSettings, SerialDevice, SerialPortSettings, StopBits};

use crate::eval::{guarded, mkframe, parse_signs, run_cop, str_outcome, SharedVBus};
use crate::proto::*;

#[derive(Clone, Copy, Debug)]
pub enum RdEv {
    Data(usize),
    Intr,
    Fail(io::ErrorKind),
}
#[derive(Clone, Copy, Debug)]
pub enum WrEv {
    Accept(usize),
    Intr,
    Zero,
    Fail(io::ErrorKind),
}

/// `F` = ErrorKind::Other; `F<letter>` picks another non-Interrupted kind.  The model treats them alike:
/// every error other than Interrupted is a hard failure.
fn fail_kind(s: &str) -> io::ErrorKind {
    match s.as_bytes().get(1) {
        None => io::ErrorKind::Other,
        Some(b'T') => io::ErrorKind::TimedOut,
        Some(b'W') => io::ErrorKind::WouldBlock,
        Some(b'E') => io::ErrorKind::UnexpectedEof,
        Some(b'B') => io::ErrorKind::BrokenPipe,
        Some(b'Z') => io::ErrorKind::WriteZero,
        Some(b'D') => io::ErrorKind::InvalidData,
        Some(b'N') => io::ErrorKind::NotConnected,
        _ => panic!("bad failure kind"),
    }
}

pub fn rd_ev_of_str(s: &str) -> RdEv {
    match s.as_bytes()[0] {
        b'D' => RdEv::Data(s[1..].parse().unwrap()),
        b'I' => RdEv::Intr,
        b'F' => RdEv::Fail(fail_kind(s)),
        _ => panic!("bad rd_ev"),
    }
}
pub fn wr_ev_of_str(s: &str) -> WrEv {
    match s.as_bytes()[0] {
        b'A' => WrEv::Accept(s[1..].parse().unwrap()),
        b'I' => WrEv::Intr,
        b'Z' => WrEv::Zero,
        b'F' => WrEv::Fail(fail_kind(s)),
        _ => panic!("bad wr_ev"),
    }
}

/// A stream that honours a per-call schedule for ANY request size, so that an implementation
/// asking for more than one byte at a time would visibly over-consume.
pub struct SchedReader {
    pub content: Vec<u8>,
    pub pos: usize,
    pub sched: VecDeque<RdEv>,
    pub calls: usize,
    pub last_read_end: Option<Instant>,
    pub first_read_start: Option<Instant>,
    /// real time the first read call takes (a sign that is slow to answer)
    pub latency: Duration,
    /// real time EVERY read call takes (a reply that trickles in)
    pub per_read: Duration,
}
impl SchedReader {
    pub fn new(content: Vec<u8>, sched: Vec<RdEv>) -> Self {
        SchedReader { content, pos: 0, sched: sched.into(), calls: 0, last_read_end: None, first_read_start: None, latency: Duration::ZERO, per_read: Duration::ZERO }
    }
    pub fn remaining(&self) -> &[u8] {
        &self.content[self.pos..]
    }
}
impl Read for SchedReader {
    fn read(&mut self, buf: &mut [u8]) -> io::Result<usize> {
        if self.first_read_start.is_none() {
            self.first_read_start = Some(Instant::now());
            if !self.latency.is_zero() {
                std::thread::sleep(self.latency);
            }
        }
        self.calls += 1;
        if !self.per_read.is_zero() {
            std::thread::sleep(self.per_read);
        }
        let avail = self.content.len() - self.pos;
        let r = match self.sched.pop_front() {
            None => Ok(buf.len().min(avail)),
            Some(RdEv::Data(n)) => Ok(buf.len().min(n + 1).min(avail)),
            Some(RdEv::Intr) => Err(io::Error::new(io::ErrorKind::Interrupted, "scheduled interrupt")),
            Some(RdEv::Fail(k)) => Err(io::Error::new(k, "scheduled failure")),
        };
        if let Ok(k) = r {
            buf[..k].copy_from_slice(&self.content[self.pos..self.pos + k]);
            self.pos += k;
        }
        self.last_read_end = Some(Instant::now());
        r
    }
}

pub struct SchedWriter {
    pub out: Vec<u8>,
    pub sched: VecDeque<WrEv>,
    pub first_write_start: Option<Instant>,
    pub last_write_end: Option<Instant>,
    /// start and end of every write call, in order
    pub write_spans: Vec<(Instant, Instant)>,
    /// real time the first write call of each frame takes (a port that blocks while transmitting)
    pub cost: Duration,
}
impl SchedWriter {
    pub fn new(sched: Vec<WrEv>) -> Self {
        SchedWriter { out: vec![], sched: sched.into(), first_write_start: None, last_write_end: None, write_spans: vec![], cost: Duration::ZERO }
    }
}
impl Write for SchedWriter {
    fn write(&mut self, buf: &[u8]) -> io::Result<usize> {
        let t0 = Instant::now();
        if self.first_write_start.is_none() {
            self.first_write_start = Some(t0);
        }
        if !self.cost.is_zero() && buf.first() == Some(&b':') {
            std::thread::sleep(self.cost);
        }
        let r = match self.sched.pop_front() {
            None => Ok(buf.len()),
            Some(WrEv::Accept(n)) => Ok(buf.len().min(n + 1)),
            Some(WrEv::Intr) => Err(io::Error::new(io::ErrorKind::Interrupted, "scheduled interrupt")),
            Some(WrEv::Zero) => Ok(0),
            Some(WrEv::Fail(k)) => Err(io::Error::new(k, "scheduled failure")),
        };
        if let Ok(k) = r {
            self.out.extend_from_slice(&buf[..k]);
        }
        let t1 = Instant::now();
        self.last_write_end = Some(t1);
        self.write_spans.push((t0, t1));
        r
    }
    /// A gathering write: the same per-call schedule applies to the concatenation of the buffers offered (a sink
    /// that really implements vectored writes may accept a byte count that ends in the middle of any of them).
    fn write_vectored(&mut self, bufs: &[io::IoSlice<'_>]) -> io::Result<usize> {
        let all: Vec<u8> = bufs.iter().flat_map(|b| b.iter().copied()).collect();
        self.write(&all)
    }
    fn flush(&mut self) -> io::Result<()> {
        Ok(())
    }
}

// ---------------------------------------------------------------------------------------------
// A serial device built from the two scheduled streams plus settings with injectable failures.

#[derive(Clone, Copy, Debug, PartialEq, Eq)]
pub enum FailAt {
    None,
    Read,
    Baud,
    Write,
    Timeout,
}

/// Which serial_core error a refusing device call returns.  The description is unique so that "returns THAT
/// error" can be checked.
#[derive(Clone, Copy, Debug, PartialEq, Eq)]
pub enum FailKind {
    NoDevice,
    InvalidInput,
    Io(io::ErrorKind),
}
pub const INJECTED: &str = "injected-by-fdx-7c1e";
impl FailKind {
    pub fn of_str(s: &str) -> FailKind {
        match s {
            "" | "N" => FailKind::NoDevice,
            "V" => FailKind::InvalidInput,
            "I" => FailKind::Io(io::ErrorKind::Interrupted),
            "W" => FailKind::Io(io::ErrorKind::WouldBlock),
            "T" => FailKind::Io(io::ErrorKind::TimedOut),
            "O" => FailKind::Io(io::ErrorKind::Other),
            "P" => FailKind::Io(io::ErrorKind::PermissionDenied),
            "X" => FailKind::Io(io::ErrorKind::Unsupported),
            "F" => FailKind::Io(io::ErrorKind::NotFound),
            _ => panic!("bad failure kind"),
        }
    }
    pub fn kind(self) -> serial_core::ErrorKind {
        match self {
            FailKind::NoDevice => serial_core::ErrorKind::NoDevice,
            FailKind::InvalidInput => serial_core::ErrorKind::InvalidInput,
            FailKind::Io(k) => serial_core::ErrorKind::Io(k),
        }
    }
    pub fn error(self) -> serial_core::Error {
        serial_core::Error::new(self.kind(), INJECTED)
    }
}

#[derive(Clone, Copy, Debug)]
pub struct FSettings {
    pub inner: PortSettings,
    pub fail_baud: Option<FailKind>,
    /// the device cannot express its current mode in the portable settings type: the getter of a field returns None
    /// until that field has been set (as real back ends do for split speeds, odd character sizes, ...)
    pub opaque: [bool; 5],
}
impl SerialPortSettings for FSettings {
    fn baud_rate(&self) -> Option<BaudRate> {
        if self.opaque[0] { None } else { self.inner.baud_rate() }
    }
    fn char_size(&self) -> Option<CharSize> {
        if self.opaque[1] { None } else { self.inner.char_size() }
    }
    fn parity(&self) -> Option<Parity> {
        if self.opaque[2] { None } else { self.inner.parity() }
    }
    fn stop_bits(&self) -> Option<StopBits> {
        if self.opaque[3] { None } else { self.inner.stop_bits() }
    }
    fn flow_control(&self) -> Option<FlowControl> {
        if self.opaque[4] { None } else { self.inner.flow_control() }
    }
    fn set_baud_rate(&mut self, baud_rate: BaudRate) -> serial_core::Result<()> {
        if let Some(k) = self.fail_baud {
            return Err(k.error());
        }
        self.opaque[0] = false;
        self.inner.set_baud_rate(baud_rate)
    }
    fn set_char_size(&mut self, char_size: CharSize) {
        self.opaque[1] = false;
        self.inner.set_char_size(char_size)
    }
    fn set_parity(&mut self, parity: Parity) {
        self.opaque[2] = false;
        self.inner.set_parity(parity)
    }
    fn set_stop_bits(&mut self, stop_bits: StopBits) {
        self.opaque[3] = false;
        self.inner.set_stop_bits(stop_bits)
    }
    fn set_flow_control(&mut self, flow_control: FlowControl) {
        self.opaque[4] = false;
        self.inner.set_flow_control(flow_control)
    }
}

pub struct TestPort {
    pub rd: SchedReader,
    pub wr: SchedWriter,
    pub settings: PortSettings,
    pub fail: FailAt,
    /// the error the refusing call returns (every call from then on refuses the same way)
    pub fail_kind: FailKind,
    pub timeout: Option<Duration>,
    pub config_calls: Vec<&'static str>,
    /// flush() reports an error (the library itself never needs to flush: every write goes straight to the port)
    pub flush_fails: bool,
    /// which of the five settings the device cannot report (see FSettings::opaque)
    pub opaque: [bool; 5],
    /// where the port leaves a last view of itself (bytes written, bytes unread, settings, timeout) when it is dropped:
    /// an owner such as `Odk` keeps its port private, so the harness looks at the port after dropping the owner
    pub last_view: Option<std::sync::Arc<std::sync::Mutex<Option<Vec<String>>>>>,
    /// the longest read timeout the device takes (a longer one is refused with fail_kind, every time)
    pub max_timeout: Option<Duration>,
    /// a device whose read_settings keeps answering with the settings it had when it was opened (serial_core does not
    /// promise that a read reflects an earlier write)
    pub stale_reads: Option<PortSettings>,
    /// a device whose write_settings re-initialises the channel and with it forgets the read timeout
    pub write_resets_timeout: bool,
}
impl Drop for TestPort {
    fn drop(&mut self) {
        if let Some(v) = &self.last_view {
            if let Ok(mut g) = v.lock() {
                *g = Some(self.view_fields());
            }
        }
    }
}
impl TestPort {
    fn view_fields(&self) -> Vec<String> {
        vec![
            hex_of_bytes(&self.wr.out),
            hex_of_bytes(self.rd.remaining()),
            str_settings(&self.settings),
            self.timeout.map(|d| d.as_nanos().to_string()).unwrap_or_else(|| "-".to_string()),
        ]
    }
    /// Ask the port to leave its last view behind; returns the place where it will appear.
    pub fn watch(&mut self) -> std::sync::Arc<std::sync::Mutex<Option<Vec<String>>>> {
        let v = std::sync::Arc::new(std::sync::Mutex::new(None));
        self.last_view = Some(v.clone());
        v
    }
    pub fn new(rd: SchedReader, wr: SchedWriter) -> Self {
        TestPort {
            rd,
            wr,
            settings: PortSettings {
                baud_rate: BaudRate::Baud110,
                char_size: CharSize::Bits7,
                parity: Parity::ParityEven,
                stop_bits: StopBits::Stop2,
                flow_control: FlowControl::FlowSoftware,
            },
            fail: FailAt::None,
            fail_kind: FailKind::NoDevice,
            timeout: None,
            config_calls: vec![],
            flush_fails: false,
            last_view: None,
            max_timeout: None,
            stale_reads: None,
            write_resets_timeout: false,
            opaque: [false; 5],
        }
    }
}
impl Read for TestPort {
    fn read(&mut self, buf: &mut [u8]) -> io::Result<usize> {
        self.rd.read(buf)
    }
}
impl Write for TestPort {
    fn write(&mut self, buf: &[u8]) -> io::Result<usize> {
        self.wr.write(buf)
    }
    fn write_vectored(&mut self, bufs: &[io::IoSlice<'_>]) -> io::Result<usize> {
        self.wr.write_vectored(bufs)
    }
    fn flush(&mut self) -> io::Result<()> {
        if self.flush_fails {
            return Err(io::Error::new(io::ErrorKind::Other, "drain failed"));
        }
        Ok(())
    }
}
impl SerialDevice for TestPort {
    type Settings = FSettings;
    fn read_settings(&self) -> serial_core::Result<FSettings> {
        if self.fail == FailAt::Read {
            return Err(self.fail_kind.error());
        }
        Ok(FSettings { inner: self.stale_reads.unwrap_or(self.settings), fail_baud: if self.fail == FailAt::Baud { Some(self.fail_kind) } else { None }, opaque: self.opaque })
    }
    fn write_settings(&mut self, settings: &FSettings) -> serial_core::Result<()> {
        self.config_calls.push("write_settings");
        if self.fail == FailAt::Write {
            return Err(self.fail_kind.error());
        }
        // a field the caller never set stays whatever the device had
        self.settings = settings.inner;
        self.opaque = settings.opaque;
        if self.write_resets_timeout {
            self.timeout = None;
        }
        Ok(())
    }
    fn timeout(&self) -> Duration {
        self.timeout.unwrap_or(Duration::from_secs(0))
    }
    fn set_timeout(&mut self, t: Duration) -> serial_core::Result<()> {
        self.config_calls.push("set_timeout");
        if self.fail == FailAt::Timeout || self.max_timeout.map(|m| t > m).unwrap_or(false) {
            return Err(self.fail_kind.error());
        }
        self.timeout = Some(t);
        Ok(())
    }
    fn set_rts(&mut self, _: bool) -> serial_core::Result<()> {
        Ok(())
    }
    fn set_dtr(&mut self, _: bool) -> serial_core::Result<()> {
        Ok(())
    }
    fn read_cts(&mut self) -> serial_core::Result<bool> {
        Ok(true)
    }
    fn read_dsr(&mut self) -> serial_core::Result<bool> {
        Ok(true)
    }
    fn read_ri(&mut self) -> serial_core::Result<bool> {
        Ok(false)
    }
    fn read_cd(&mut self) -> serial_core::Result<bool> {
        Ok(true)
    }
}

#[allow(dead_code)]
fn str_box_err(e: &(dyn std::error::Error + Send + Sync + 'static)) -> String {
    match e.downcast_ref::<FrameError>() {
        Some(fe) => str_ferr(fe),
        None => "ER OTHER".to_string(),
    }
}

// ---------------------------------------------------------------------------------------------
// the full serial path: controller port <-> pipes <-> Odk port

struct Pipes {
    a: VecDeque<u8>, // controller -> bridge
    b: VecDeque<u8>, // bridge -> controller
    bridge_log: Vec<String>,
    /// WBS: every read and write call fragments or is interrupted according to a fixed cyclic pattern
    frag: bool,
    calls: [usize; 4], // bridge read, bridge write, controller read, controller write
}
/// (bytes this call may transfer, or None = ErrorKind::Interrupted)
fn frag_read(n: usize) -> Option<usize> {
    [Some(1), None, Some(3), Some(1), Some(6), None, None, Some(2)][n % 8]
}
fn frag_write(n: usize) -> Option<usize> {
    [Some(1), None, Some(4), Some(2), None, Some(10)][n % 6]
}
fn interrupted() -> io::Error {
    io::Error::new(io::ErrorKind::Interrupted, "scheduled interrupt")
}
struct OdkPort {
    sh: Rc<RefCell<Pipes>>,
    settings: PortSettings,
}
impl Read for OdkPort {
    fn read(&mut self, buf: &mut [u8]) -> io::Result<usize> {
        let mut sh = self.sh.borrow_mut();
        let mut limit = buf.len();
        if sh.frag && !sh.a.is_empty() {
            sh.calls[0] += 1;
            match frag_read(sh.calls[0]) {
                None => return Err(interrupted()),
                Some(n) => limit = limit.min(n),
            }
        }
        let mut k = 0;
        while k < limit {
            match sh.a.pop_front() {
                Some(x) => {
                    buf[k] = x;
                    k += 1;
                }
                None => break,
            }
        }
        if k == 0 && !buf.is_empty() {
            return Err(io::Error::new(io::ErrorKind::TimedOut, "no data"));
        }
        Ok(k)
    }
}
impl Write for OdkPort {
    fn write(&mut self, buf: &[u8]) -> io::Result<usize> {
        let mut sh = self.sh.borrow_mut();
        let mut n = buf.len();
        if sh.frag && n > 0 {
            sh.calls[1] += 1;
            match frag_write(sh.calls[1]) {
                None => return Err(interrupted()),
                Some(k) => n = n.min(k),
            }
        }
        sh.b.extend(buf[..n].iter());
        Ok(n)
    }
    fn flush(&mut self) -> io::Result<()> {
        Ok(())
    }
}
macro_rules! plain_device {
    ($t:ty) => {
        impl SerialDevice for $t {
            type Settings = PortSettings;
            fn read_settings(&self) -> serial_core::Result<PortSettings> {
                Ok(self.settings)
            }
            fn write_settings(&mut self, s: &PortSettings) -> serial_core::Result<()> {
                self.settings = *s;
                Ok(())
            }
            fn timeout(&self) -> Duration {
                Duration::from_secs(1)
            }
            fn set_timeout(&mut self, _: Duration) -> serial_core::Result<()> {
                Ok(())
            }
            fn set_rts(&mut self, _: bool) -> serial_core::Result<()> {
                Ok(())
            }
            fn set_dtr(&mut self, _: bool) -> serial_core::Result<()> {
                Ok(())
            }
            fn read_cts(&mut self) -> serial_core::Result<bool> {
                Ok(true)
            }
            fn read_dsr(&mut self) -> serial_core::Result<bool> {
                Ok(true)
            }
            fn read_ri(&mut self) -> serial_core::Result<bool> {
                Ok(false)
            }
            fn read_cd(&mut self) -> serial_core::Result<bool> {
                Ok(true)
            }
        }
    };
}
plain_device!(OdkPort);

type Bridge = Odk<OdkPort, SharedVBus>;
struct CtrlPort {
    sh: Rc<RefCell<Pipes>>,
    odk: Rc<RefCell<Bridge>>,
    settings: PortSettings,
}
impl Read for CtrlPort {
    fn read(&mut self, buf: &mut [u8]) -> io::Result<usize> {
        let mut sh = self.sh.borrow_mut();
        let mut limit = buf.len();
        if sh.frag && !sh.b.is_empty() {
            sh.calls[2] += 1;
            match frag_read(sh.calls[2]) {
                None => return Err(interrupted()),
                Some(n) => limit = limit.min(n),
            }
        }
        let mut k = 0;
        while k < limit {
            match sh.b.pop_front() {
                Some(x) => {
                    buf[k] = x;
                    k += 1;
                }
                None => break,
            }
        }
        if k == 0 && !buf.is_empty() {
            return Err(io::Error::new(io::ErrorKind::TimedOut, "no reply"));
        }
        Ok(k)
    }
}
impl Write for CtrlPort {
    fn write(&mut self, buf: &[u8]) -> io::Result<usize> {
        let mut n = buf.len();
        {
            let mut sh = self.sh.borrow_mut();
            if sh.frag && n > 0 {
                sh.calls[3] += 1;
                match frag_write(sh.calls[3]) {
                    None => return Err(interrupted()),
                    Some(k) => n = n.min(k),
                }
            }
            sh.a.extend(buf[..n].iter());
        }
        let buf = &buf[..n];
        if buf.contains(&b'\n') {
            // a complete line is on the wire: let the bridge handle it
            let r = guarded(|| self.odk.borrow_mut().process_message());
            let s = match r {
                None => "PANIC".to_string(),
                Some(Ok(())) => "OK".to_string(),
                Some(Err(OdkError::Communication { .. })) => "COMM".to_string(),
                Some(Err(OdkError::Bus { .. })) => "BUSERR".to_string(),
                Some(Err(_)) => "ER ???".to_string(),
            };
            self.sh.borrow_mut().bridge_log.push(s);
        }
        Ok(buf.len())
    }
    fn flush(&mut self) -> io::Result<()> {
        Ok(())
    }
}
plain_device!(CtrlPort);

fn default_settings() -> PortSettings {
    PortSettings {
        baud_rate: BaudRate::Baud9600,
        char_size: CharSize::Bits8,
        parity: Parity::ParityNone,
        stop_bits: StopBits::Stop1,
        flow_control: FlowControl::FlowNone,
    }
}

// ---------------------------------------------------------------------------------------------

const BAUDS: [BaudRate; 11] = [
    BaudRate::Baud110,
    BaudRate::Baud300,
    BaudRate::Baud600,
    BaudRate::Baud1200,
    BaudRate::Baud2400,
    BaudRate::Baud4800,
    BaudRate::Baud9600,
    BaudRate::Baud19200,
    BaudRate::Baud38400,
    BaudRate::Baud57600,
    BaudRate::Baud115200,
];

fn str_settings(s: &PortSettings) -> String {
    let baud = match s.baud_rate {
        BaudRate::BaudOther(n) => format!("O{}", n),
        b => BAUDS.iter().position(|x| *x == b).map(|i| i.to_string()).unwrap_or("?".into()),
    };
    let cs = match s.char_size {
        CharSize::Bits5 => "5",
        CharSize::Bits6 => "6",
        CharSize::Bits7 => "7",
        CharSize::Bits8 => "8",
    };
    let par = match s.parity {
        Parity::ParityNone => "N",
        Parity::ParityOdd => "O",
        Parity::ParityEven => "E",
    };
    let stop = match s.stop_bits {
        StopBits::Stop1 => "1",
        StopBits::Stop2 => "2",
    };
    let flow = match s.flow_control {
        FlowControl::FlowNone => "N",
        FlowControl::FlowSoftware => "S",
        FlowControl::FlowHardware => "H",
    };
    format!("{} {} {} {} {}", baud, cs, par, stop, flow)
}

fn split_at<'a>(sep: &str, l: &'a [&'a str]) -> (&'a [&'a str], &'a [&'a str]) {
    match l.iter().position(|x| *x == sep) {
        Some(i) => (&l[..i], &l[i + 1..]),
        None => (l, &[]),
    }
}

pub fn eval_io_case(t: &[&str]) -> Option<String> {
    match t[0] {
        "RD" => {
            let k: usize = t[1].parse().unwrap();
            let mut r = SchedReader::new(bytes_of_hex(t[2]), t[3..].iter().map(|s| rd_ev_of_str(s)).collect());
            let mut outs = vec![];
            for _ in 0..k {
                let s = match guarded(|| Frame::read(&mut r)) {
                    None => "PANIC".to_string(),
                    Some(Ok(f)) => format!("OK {}", str_frame(&f)),
                    Some(Err(e)) => str_ferr(&e),
                };
                outs.push(s);
            }
            Some(format!("{} | {}", outs.join(" ; "), hex_of_bytes(r.remaining())))
        }
        "WR" => {
            let f = mkframe(t[1].parse().unwrap(), t[2].parse().unwrap(), bytes_of_hex(t[3]), false);
            let mut w = SchedWriter::new(t[4..].iter().map(|s| wr_ev_of_str(s)).collect());
            let s = match guarded(|| f.write(&mut w)) {
                None => "PANIC".to_string(),
                Some(Ok(())) => "OK".to_string(),
                Some(Err(e)) => str_ferr(&e),
            };
            Some(format!("{} | {}", s, hex_of_bytes(&w.out)))
        }
        "SB" | "TM" => {
            let timing = t[0] == "TM";
            // TM msg tape [slow]: with `slow` the port takes real time (20 ms per frame written, 40 ms until the
            // reply starts to arrive), so that pacing measured from before the I/O instead of after it is exposed.
            let slow = timing && t.get(3) == Some(&"slow");
            let empty: [&str; 0] = [];
            // (TM may carry read / write schedules after `slow`, as SB does)
            let sched_from = if timing { 3 + slow as usize } else { 3 };
            let (rs, ws): (&[&str], &[&str]) = if t.len() > sched_from { split_at("/", &t[sched_from..]) } else { (&empty[..], &empty[..]) };
            let trials = if !timing { 1 } else if slow { 3 } else { 12 };
            let mut min_send = Duration::from_secs(3600);
            let mut min_recv = Duration::from_secs(3600);
            let mut min_pre = Duration::from_secs(3600);
            let mut result = String::new();
            for trial in 0..trials {
                let mut rd = SchedReader::new(bytes_of_hex(t[2]), rs.iter().map(|s| rd_ev_of_str(s)).collect());
                let mut wr = SchedWriter::new(ws.iter().map(|s| wr_ev_of_str(s)).collect());
                if slow {
                    wr.cost = Duration::from_millis(20);
                    rd.latency = Duration::from_millis(40);
                }
                let mut port = TestPort::new(rd, wr);
                // trial modes (timing only): 0 plain; 1 a pending wake-up token on the thread; 2 an earlier exchange on
                // the same bus followed by a 120 ms break of the caller; 3 a port whose flush() fails
                let mode = if timing { trial % 4 } else { 0 };
                port.flush_fails = mode == 3;
                let mut bus = match SerialSignBus::try_new(port) {
                    Ok(b) => b,
                    Err(_) => return Some("ER SETUP".to_string()),
                };
                let m = msg_of_str(t[1]);
                if mode == 2 {
                    let _ = guarded(|| bus.process_message(msg_of_str("DC.0")));
                    std::thread::sleep(Duration::from_millis(120));
                }
                if mode == 1 {
                    // state an earlier, unrelated call may have left on this thread: a pending wake-up token
                    std::thread::current().unpark();
                }
                let start = Instant::now();
                let r = guarded(|| bus.process_message(m));
                let end = Instant::now();
                let res = match &r {
                    None => "PANIC".to_string(),
                    Some(Ok(reply)) => format!("OK {}", str_omsg(reply)),
                    // C16 fixes THAT a failed write, failed read or undecodable reply is an error, not which one
                    Some(Err(_)) => "ER".to_string(),
                };
                {
                    let port = bus.port();
                    result = format!("{} | {} | {}", res, hex_of_bytes(&port.wr.out), hex_of_bytes(port.rd.remaining()));
                }
                if !timing {
                    break;
                }
                // "does not write the next message until at least 30 ms have passed": follow with a message that is
                // neither paced nor answered and measure from the end of the first frame's write to the start of the next.
                let _ = guarded(|| bus.process_message(msg_of_str("DC.0")));
                let port = bus.port();
                let first_end = port.wr.write_spans.iter().filter(|(s, e)| *s >= start && *e <= end).map(|(_, e)| *e).last();
                let next_start = port.wr.write_spans.iter().filter(|(s, _)| *s >= end).map(|(s, _)| *s).next();
                if let (Some(we), Some(ns)) = (first_end, next_start) {
                    // idle time after the write that is not spent reading the reply or in the post-receive delay:
                    // until the read starts (or the call returns), plus from the return to the next frame's write
                    let until = port.rd.first_read_start.filter(|r| *r >= start).unwrap_or(end);
                    min_send = min_send.min(until.saturating_duration_since(we) + ns.saturating_duration_since(end));
                }
                if let Some(ws) = port.wr.write_spans.iter().map(|(s, _)| *s).find(|s| *s >= start) {
                    min_pre = min_pre.min(ws.duration_since(start));
                }
                if let Some(re) = port.rd.last_read_end.filter(|r| *r >= start) {
                    min_recv = min_recv.min(end.saturating_duration_since(re));
                } else {
                    min_recv = Duration::from_secs(0);
                }
                // an unpaced verdict cannot be overturned by more trials
                if min_send < Duration::from_millis(30) && min_recv < Duration::from_millis(100) && min_pre < Duration::from_millis(30) {
                    break;
                }
            }
            if timing {
                let send = (min_send >= Duration::from_millis(30)) as u8;
                let recv = (min_recv >= Duration::from_millis(100)) as u8;
                // a delay of either pacing amount anywhere else (before the frame is written)
                let other = min_pre >= Duration::from_millis(30);
                let reply = result.split(" | ").next().unwrap_or("").to_string();
                let reply = reply.strip_prefix("OK ").map(|x| x.to_string()).unwrap_or(reply);
                Some(format!("send={} recv={}{} reply={}", send, recv, if other { " other" } else { "" }, reply))
            } else {
                Some(result)
            }
        }
        "SBD" => {
            // SBD msg tape millis: one exchange on a port whose every read takes `millis` of real time (a reply that
            // trickles in; each read is well inside the port's timeout, the whole line may take longer than it)
            let mut rd = SchedReader::new(bytes_of_hex(t[2]), vec![]);
            rd.per_read = Duration::from_millis(t[3].parse().unwrap());
            let mut bus = match SerialSignBus::try_new(TestPort::new(rd, SchedWriter::new(vec![]))) {
                Ok(b) => b,
                Err(_) => return Some("ER SETUP".to_string()),
            };
            let r = guarded(|| bus.process_message(msg_of_str(t[1])));
            let res = match &r {
                None => "PANIC".to_string(),
                Some(Ok(reply)) => format!("OK {}", str_omsg(reply)),
                Some(Err(_)) => "ER".to_string(),
            };
            let port = bus.port();
            Some(format!("{} | {} | {}", res, hex_of_bytes(&port.wr.out), hex_of_bytes(port.rd.remaining())))
        }
        "TMS" => {
            // TMS n state: n state queries in a row on ONE bus, each answered with a report of that state; which of the
            // exchanges returned no earlier than 100 ms after its reply had been read
            let n: usize = t[1].parse().unwrap();
            let reply = flipdot_core::Frame::from(msg_of_str(&format!("RS.3.{}", t[2]))).to_bytes_with_newline();
            // One run: the indices (from 1) of the exchanges that returned 100 ms or more after their reply was read.  That
            // an exchange took LESS is a hard fact (a sleep is never short); that it took more may be the scheduler.  So
            // when only a few exchanges of a run look paced, the run is repeated (up to twice) and only those that look
            // paced every time count.
            let run = || -> Result<Vec<usize>, String> {
                let tape: Vec<u8> = (0..n).flat_map(|_| reply.iter().copied()).collect();
                let port = TestPort::new(SchedReader::new(tape, vec![]), SchedWriter::new(vec![]));
                let mut bus = SerialSignBus::try_new(port).map_err(|_| "ER SETUP".to_string())?;
                let mut paced: Vec<usize> = vec![];
                for i in 0..n {
                    let start = Instant::now();
                    let r = guarded(|| bus.process_message(msg_of_str("QS.3")));
                    let end = Instant::now();
                    if !matches!(r, Some(Ok(Some(_)))) {
                        return Err(format!("exchange {} failed", i + 1));
                    }
                    let after_read = bus.port().rd.last_read_end.filter(|r| *r >= start).map(|r| end.saturating_duration_since(r)).unwrap_or_default();
                    if after_read >= Duration::from_millis(100) {
                        paced.push(i + 1);
                    }
                }
                Ok(paced)
            };
            let mut paced = match run() {
                Ok(p) => p,
                Err(e) => return Some(e),
            };
            let mut reruns = 0;
            while !paced.is_empty() && paced.len() * 4 <= n && reruns < 2 {
                reruns += 1;
                match run() {
                    Ok(again) => paced.retain(|i| again.contains(i)),
                    Err(e) => return Some(e),
                }
            }
            let first_unpaced = (1..=n).find(|i| !paced.contains(i));
            Some(format!("n={} paced={} first-unpaced={}", n, paced.len(), first_unpaced.map(|i| i.to_string()).unwrap_or_else(|| "-".to_string())))
        }
        "SBS" => {
            // SBS k msg1..msgk tape rsched... / wsched... : k exchanges on ONE SerialSignBus over one port
            let k: usize = t[1].parse().unwrap();
            let msgs = &t[2..2 + k];
            let tape = t[2 + k];
            let (rs, ws) = split_at("/", &t[3 + k..]);
            // data chunks are sent twice over: as owned blocks, and (what a caller with one scratch buffer does) borrowed from
            // one buffer that is refilled for every message; what goes over the wire must not depend on which
            let run = |scratch_borrowed: bool| -> String {
            let mut scratch = [0u8; 256];
            let rd = SchedReader::new(bytes_of_hex(tape), rs.iter().map(|s| rd_ev_of_str(s)).collect());
            let wr = SchedWriter::new(ws.iter().map(|s| wr_ev_of_str(s)).collect());
            let mut bus = match SerialSignBus::try_new(TestPort::new(rd, wr)) {
                Ok(b) => b,
                Err(_) => return "ER SETUP".to_string(),
            };
            let mut outs = vec![];
            for m in msgs {
                let parts: Vec<&str> = m.split('.').collect();
                let r = if scratch_borrowed && parts.len() == 3 && parts[0] == "SD" && parts[2].len() / 2 <= 255 {
                    let d = bytes_of_hex(parts[2]);
                    scratch[..d.len()].copy_from_slice(&d);
                    let off = match msg_of_str(m) {
                        flipdot_core::Message::SendData(o, _) => o,
                        _ => unreachable!(),
                    };
                    let msg = flipdot_core::Message::SendData(off, flipdot_core::Data::try_new(&scratch[..d.len()]).expect("at most 255 bytes"));
                    guarded(|| bus.process_message(msg))
                } else {
                    guarded(|| bus.process_message(msg_of_str(m)))
                };
                outs.push(match &r {
                    None => "PANIC".to_string(),
                    Some(Ok(reply)) => format!("OK {}", str_omsg(reply)),
                    Some(Err(_)) => "ER".to_string(),
                });
            }
            let port = bus.port();
            format!("{} | {} | {}", outs.join(" ; "), hex_of_bytes(&port.wr.out), hex_of_bytes(port.rd.remaining()))
            };
            let owned = run(false);
            if msgs.iter().any(|m| m.starts_with("SD.")) {
                let borrowed = run(true);
                if borrowed != owned {
                    return Some(borrowed);
                }
            }
            Some(owned)
        }
        "ODS" => {
            // ODS input reply... / wsched... : the ODK bridge in front of a bus that answers each forwarded message from a
            // script (N = no answer) -- including answers to messages a sign would never answer
            let (replies, ws) = split_at("/", &t[2..]);
            struct Scripted {
                current: Rc<RefCell<Option<flipdot_core::Message<'static>>>>,
                log: Rc<RefCell<Vec<String>>>,
            }
            impl std::fmt::Debug for Scripted {
                fn fmt(&self, f: &mut std::fmt::Formatter<'_>) -> std::fmt::Result {
                    write!(f, "Scripted")
                }
            }
            impl SignBus for Scripted {
                fn process_message<'a>(
                    &mut self,
                    message: flipdot_core::Message<'_>,
                ) -> Result<Option<flipdot_core::Message<'a>>, Box<dyn std::error::Error + Send + Sync>> {
                    self.log.borrow_mut().push(str_msg(&message));
                    Ok(self.current.borrow().as_ref().map(own_msg))
                }
            }
            let log = Rc::new(RefCell::new(vec![]));
            let answers: Vec<Option<flipdot_core::Message<'static>>> = replies.iter().map(|s| if *s == "N" { None } else { Some(msg_of_str(s)) }).collect();
            let nsteps = answers.len();
            let current = Rc::new(RefCell::new(None));
            let mut port = TestPort::new(SchedReader::new(bytes_of_hex(t[1]), vec![]), SchedWriter::new(ws.iter().map(|s| wr_ev_of_str(s)).collect()));
            let view = port.watch();
            let mut odk = match Odk::try_new(port, Scripted { current: current.clone(), log: log.clone() }) {
                Ok(o) => o,
                Err(_) => return Some("ER SETUP".to_string()),
            };
            let mut outs = vec![];
            for step in 0..nsteps {
                // the answer the bus would give at this step, whether or not the bridge gets as far as asking
                *current.borrow_mut() = answers[step].clone();
                let before = log.borrow().len();
                let r = guarded(|| odk.process_message());
                let s = match r {
                    None => "PANIC".to_string(),
                    Some(Ok(())) => "OK".to_string(),
                    Some(Err(OdkError::Communication { .. })) => "COMM".to_string(),
                    Some(Err(OdkError::Bus { .. })) => "BUSERR".to_string(),
                    Some(Err(_)) => "ER ???".to_string(),
                };
                let fwd = log.borrow().get(before).cloned().unwrap_or_else(|| "-".to_string());
                outs.push(format!("{} fwd={}", s, fwd));
            }
            let f = view_after_drop(odk, &view);
            Some(format!("{} | {} | {}", outs.join(" ; "), f[0], f[1]))
        }
        "OD" => {
            let k: usize = t[1].parse().unwrap();
            let (signs, rest) = parse_signs(k, &t[2..]);
            // grammar: OD k signs | prior... | input nsteps wsched...
            let rest = if rest.first() == Some(&"|") { &rest[1..] } else { rest };
            let (prior, rest) = split_at("|", rest);
            let vbus = Rc::new(RefCell::new(VirtualSignBus::new(signs)));
            for m in prior {
                let msg = msg_of_str(m);
                if guarded(|| vbus.borrow_mut().process_message(msg).map(|_| ())).is_none() {
                    return Some("PANIC-PRIOR".to_string());
                }
            }
            let input = bytes_of_hex(rest[0]);
            let nsteps: usize = rest[1].parse().unwrap();
            let wsched: Vec<WrEv> = rest[2..].iter().map(|s| wr_ev_of_str(s)).collect();
            let mut port = TestPort::new(SchedReader::new(input, vec![]), SchedWriter::new(wsched));
            let view = port.watch();
            // spy bus: remember what the bridge forwarded
            struct Spy {
                inner: SharedVBus,
                last: Rc<RefCell<Option<String>>>,
            }
            impl std::fmt::Debug for Spy {
                fn fmt(&self, f: &mut std::fmt::Formatter<'_>) -> std::fmt::Result {
                    write!(f, "Spy")
                }
            }
            impl SignBus for Spy {
                fn process_message<'a>(
                    &mut self,
                    message: flipdot_core::Message<'_>,
                ) -> Result<Option<flipdot_core::Message<'a>>, Box<dyn std::error::Error + Send + Sync>> {
                    *self.last.borrow_mut() = Some(str_msg(&message));
                    self.inner.process_message(message)
                }
            }
            let last = Rc::new(RefCell::new(None));
            let mut odk = match Odk::try_new(port, Spy { inner: SharedVBus(vbus.clone()), last: last.clone() }) {
                Ok(o) => o,
                Err(_) => return Some("ER SETUP".to_string()),
            };
            let mut outs = vec![];
            for _ in 0..nsteps {
                *last.borrow_mut() = None;
                let r = guarded(|| odk.process_message());
                let s = match r {
                    None => "PANIC".to_string(),
                    Some(Ok(())) => "OK".to_string(),
                    Some(Err(OdkError::Communication { .. })) => "COMM".to_string(),
                    Some(Err(OdkError::Bus { .. })) => "BUSERR".to_string(),
                    Some(Err(_)) => "ER ???".to_string(),
                };
                let fwd = last.borrow().clone().unwrap_or_else(|| "-".to_string());
                outs.push(format!("{} fwd={}", s, fwd));
            }
            // Odk has no accessor for its port: the port leaves a last view of itself behind when the bridge is dropped.
            let f = view_after_drop(odk, &view);
            let b = vbus.borrow();
            let obs_all: Vec<String> = (0..k).map(|i| obs(b.sign(i))).collect();
            Some(format!("{} | {} | {} | {}", outs.join(" ; "), f[0], f[1], obs_all.join("/")))
        }
        "WB" | "WBS" => {
            let k: usize = t[1].parse().unwrap();
            let (signs, rest) = parse_signs(k, &t[2..]);
            let (prior, ops) = split_at("|", rest);
            let vbus = Rc::new(RefCell::new(VirtualSignBus::new(signs)));
            for m in prior {
                let msg = msg_of_str(m);
                if guarded(|| vbus.borrow_mut().process_message(msg).map(|_| ())).is_none() {
                    return Some("PANIC-PRIOR".to_string());
                }
            }
            let sh = Rc::new(RefCell::new(Pipes { a: VecDeque::new(), b: VecDeque::new(), bridge_log: vec![], frag: t[0] == "WBS", calls: [0; 4] }));
            let odk = match Odk::try_new(OdkPort { sh: sh.clone(), settings: default_settings() }, SharedVBus(vbus.clone())) {
                Ok(o) => Rc::new(RefCell::new(o)),
                Err(_) => return Some("ER SETUP".to_string()),
            };
            let sbus = match SerialSignBus::try_new(CtrlPort { sh: sh.clone(), odk: odk.clone(), settings: default_settings() }) {
                Ok(b) => b,
                Err(_) => return Some("ER SETUP".to_string()),
            };
            let bus: Rc<RefCell<dyn SignBus>> = Rc::new(RefCell::new(sbus));
            let mut out = String::new();
            for o in ops {
                let r = run_cop(o, bus.clone());
                out.push_str(&str_outcome(&r, false));
                let b = vbus.borrow();
                for i in 0..k {
                    out.push('/');
                    out.push_str(&obs(b.sign(i)));
                }
                out.push(' ');
            }
            let b = vbus.borrow();
            let pages: Vec<String> = (0..k).map(|i| str_pages(b.sign(i).pages())).collect();
            let inbox: Vec<u8> = sh.borrow().b.iter().copied().collect();
            Some(format!("{}# {} # inbox={}", out, pages.join(";"), hex_of_bytes(&inbox)))
        }
        "PT" => {
            // a leading '?' on a setting token: the device cannot report that field until it has been set
            let opaque: Vec<bool> = (1..6).map(|i| t[i].starts_with('?')).collect();
            let t: Vec<&str> = t.iter().enumerate().map(|(i, s)| if (1..6).contains(&i) { s.trim_start_matches('?') } else { *s }).collect();
            let baud = if t[1].starts_with('O') { BaudRate::BaudOther(t[1][1..].parse().unwrap()) } else { BAUDS[t[1].parse::<usize>().unwrap()] };
            let cs = match t[2] {
                "5" => CharSize::Bits5,
                "6" => CharSize::Bits6,
                "7" => CharSize::Bits7,
                _ => CharSize::Bits8,
            };
            let par = match t[3] {
                "N" => Parity::ParityNone,
                "O" => Parity::ParityOdd,
                _ => Parity::ParityEven,
            };
            let stop = if t[4] == "1" { StopBits::Stop1 } else { StopBits::Stop2 };
            let flow = match t[5] {
                "N" => FlowControl::FlowNone,
                "S" => FlowControl::FlowSoftware,
                _ => FlowControl::FlowHardware,
            };
            // fail token: <point>[:<kind letter>][~<flavour letters>]  (flavours: s = stale reads, w = a write forgets the timeout)
            let (ftoken, flavour) = t[6].split_once('~').unwrap_or((t[6], ""));
            let (fpoint, fkind) = ftoken.split_once(':').unwrap_or((ftoken, ""));
            // "above<ns>": no call refuses outright, but the device takes no timeout longer than that many nanoseconds
            let max_timeout = fpoint.strip_prefix("above").map(|n| Duration::from_nanos(n.parse().unwrap()));
            let fpoint = if max_timeout.is_some() { "timeout" } else { fpoint };
            let fail = match ftoken.split(':').next().unwrap() {
                x if x.starts_with("above") => FailAt::None,
                "none" => FailAt::None,
                "read" => FailAt::Read,
                "baud" => FailAt::Baud,
                "write" => FailAt::Write,
                _ => FailAt::Timeout,
            };
            let mut port = TestPort::new(SchedReader::new(vec![], vec![]), SchedWriter::new(vec![]));
            port.settings = PortSettings { baud_rate: baud, char_size: cs, parity: par, stop_bits: stop, flow_control: flow };
            port.fail = fail;
            port.opaque = [opaque[0], opaque[1], opaque[2], opaque[3], opaque[4]];
            port.fail_kind = FailKind::of_str(fkind);
            port.max_timeout = max_timeout;
            if flavour.contains('s') {
                port.stale_reads = Some(port.settings);
            }
            port.write_resets_timeout = flavour.contains('w');
            let want_kind = port.fail_kind.kind();
            let view = port.watch();
            let ctor: Vec<&str> = t[7].split('.').collect();
            let show = |p: &TestPort| {
                if p.opaque.iter().any(|o| *o) {
                    return "OK but-a-setting-was-never-set".to_string();
                }
                format!(
                    "OK {} {}",
                    str_settings(&p.settings),
                    p.timeout.map(|d| d.as_nanos().to_string()).unwrap_or_else(|| "-".to_string())
                )
            };
            // "returns that error": the error handed back must be the one the device call refused with
            let which = |e: &serial_core::Error| {
                use std::error::Error as _;
                #[allow(deprecated)]
                let same = e.kind() == want_kind && e.description() == INJECTED;
                if same { format!("ER {}", fpoint) } else { format!("ER {} but-another-error({:?})", fpoint, e.kind()) }
            };
            Some(match ctor[0] {
                "CFG" => {
                    // CFG.<secs>.<nanos>
                    let secs: u64 = ctor[1].parse().unwrap();
                    let nanos: u32 = ctor[2].parse().unwrap();
                    match guarded(|| flipdot_serial::configure_port(&mut port, Duration::new(secs, nanos))) {
                        None => "PANIC".to_string(),
                        Some(Ok(())) => show(&port),
                        Some(Err(e)) => which(&e),
                    }
                }
                "BUS" => match guarded(|| SerialSignBus::try_new(port)) {
                    None => "PANIC".to_string(),
                    Some(Ok(b)) => show(b.port()),
                    Some(Err(e)) => which(&e),
                },
                "ODK" => {
                    let vb = VirtualSignBus::new(vec![]);
                    match guarded(|| Odk::try_new(port, vb)) {
                        None => "PANIC".to_string(),
                        Some(Ok(o)) => {
                            let f = view_after_drop(o, &view);
                            format!("OK {} {}", f[2], f[3])
                        }
                        Some(Err(e)) => which(&e),
                    }
                }
                _ => panic!("bad ctor"),
            })
        }
        _ => None,
    }
}

impl std::fmt::Debug for TestPort {
    fn fmt(&self, f: &mut std::fmt::Formatter<'_>) -> std::fmt::Result {
        write!(f, "TestPort")
    }
}

/// The port's last view once its owner has been dropped.
fn view_after_drop<T>(owner: T, v: &std::sync::Arc<std::sync::Mutex<Option<Vec<String>>>>) -> Vec<String> {
    drop(owner);
    v.lock().ok().and_then(|mut g| g.take()).unwrap_or_else(|| vec!["PORT-NOT-DROPPED".to_string(); 4])
}

impl std::fmt::Debug for SharedVBus {
    fn fmt(&self, f: &mut std::fmt::Formatter<'_>) -> std::fmt::Result {
        write!(f, "SharedVBus")
    }
}

