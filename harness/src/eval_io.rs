//! I/O-level cases (Frame::read/write over instrumented streams, SerialSignBus, Odk, port setup).
pub fn eval_io_case(_t: &[&str]) -> Option<String> {
    None
}
