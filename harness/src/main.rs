//! fdx — correspondence harness: runs alusch/flipdot (linked from /repo's working tree) on
//! generated cases and prints canonical observables for comparison with the Coq model's oracle.
//!
//!   fdx gen <PROP> --tier quick|thorough --seed N --out DIR   generate cases, run the implementation,
//!                                                            run the model-free monitors
//!   fdx run                                                  case lines on stdin -> result lines on stdout
mod eval;
mod eval_io;
mod gen;
mod gen_io;
mod gen_sm;
mod proto;
mod rng;

use std::collections::{BTreeMap, HashSet};
use std::fs::File;
use std::io::{BufRead, BufWriter, Write};

pub struct Ctx {
    pub tier_thorough: bool,
    pub seed: u64,
    cases: BufWriter<File>,
    imp: BufWriter<File>,
    mon: BufWriter<File>,
    pub n_cases: u64,
    pub n_nontrivial_distinct: u64,
    seen: HashSet<u64>,
    pub dist: BTreeMap<String, u64>,
    pub samples: Vec<(String, String)>,
    pub n_monitor_fail: u64,
    pub monitor_checks: u64,
    pub notes: BTreeMap<String, String>,
}

fn fnv(s: &str) -> u64 {
    let mut h: u64 = 0xcbf29ce484222325;
    for b in s.as_bytes() {
        h = (h ^ (*b as u64)).wrapping_mul(1099511628211);
    }
    h
}

impl Ctx {
    /// Emit one case: evaluated on the implementation immediately.  Returns the implementation's
    /// result line.  `class` feeds the input-distribution histogram.
    pub fn case(&mut self, line: String, nontrivial: bool, class: &str) -> String {
        let res = eval::eval_case(&line);
        writeln!(self.cases, "{}", line).unwrap();
        writeln!(self.imp, "{}", res).unwrap();
        self.n_cases += 1;
        *self.dist.entry(class.to_string()).or_insert(0) += 1;
        if self.seen.insert(fnv(&line)) && nontrivial {
            self.n_nontrivial_distinct += 1;
        }
        let k = self.n_cases;
        if self.samples.len() < 6 && (k == 1 || k % 997 == 0 || (k > 50 && self.samples.len() < 3)) {
            let mut l = line.clone();
            let mut r = res.clone();
            if l.len() > 300 {
                l.truncate(300);
                l.push_str("...");
            }
            if r.len() > 300 {
                r.truncate(300);
                r.push_str("...");
            }
            self.samples.push((l, r));
        }
        res
    }

    /// Record the verdict of a model-free monitor evaluated on the implementation.
    pub fn monitor(&mut self, ok: bool, what: &str, case_line: &str, detail: &str) {
        self.monitor_checks += 1;
        if !ok {
            self.n_monitor_fail += 1;
            writeln!(self.mon, "{}\t{}\t{}", what, case_line, detail).unwrap();
        }
    }
}

fn json_str(s: &str) -> String {
    let mut o = String::from("\"");
    for c in s.chars() {
        match c {
            '"' => o.push_str("\\\""),
            '\\' => o.push_str("\\\\"),
            '\n' => o.push_str("\\n"),
            '\t' => o.push_str("\\t"),
            c if (c as u32) < 32 => o.push_str(&format!("\\u{:04x}", c as u32)),
            c => o.push(c),
        }
    }
    o.push('"');
    o
}

struct FormattingLogger;
impl log::Log for FormattingLogger {
    fn enabled(&self, m: &log::Metadata<'_>) -> bool {
        m.level() <= log::max_level()
    }
    fn log(&self, record: &log::Record<'_>) {
        // Format the record so that the code inside info!/debug! arguments really runs.
        let s = format!("{}", record.args());
        std::hint::black_box(s);
    }
    fn flush(&self) {}
}
static LOGGER: FormattingLogger = FormattingLogger;

fn main() {
    // With logging on (the debug pass) everything runs on a plain spawned thread without a name, as a worker of an
    // application would; with FDX_NOLOG (the release pass) on the main thread.
    if std::env::var("FDX_SMALL_STACK").is_ok() {
        // child of a CHILD case: an ordinary worker thread with the default 2 MiB stack
        let h = std::thread::Builder::new().stack_size(2 << 20).spawn(real_main).expect("spawn");
        let code = h.join().unwrap_or(3);
        std::process::exit(code);
    }
    if std::env::var("FDX_NOLOG").is_err() && std::env::var("FDX_MAIN_THREAD").is_err() {
        let h = std::thread::Builder::new().stack_size(1 << 30).spawn(real_main).expect("spawn");
        let code = h.join().unwrap_or(3);
        std::process::exit(code);
    }
    std::process::exit(real_main());
}

fn real_main() -> i32 {
    if std::env::var("FDX_VERBOSE").is_err() {
        std::panic::set_hook(Box::new(|_| {}));
    }
    // Logging fully on (every argument of info!/debug!/trace! is evaluated and formatted) unless FDX_NOLOG is set, in
    // which case the level is chosen per case from its text: off for two cases in five (as in a program that never set a
    // logger up), else errors only, warnings and errors, or everything down to info.
    let _ = log::set_logger(&LOGGER);
    if std::env::var("FDX_NOLOG").is_err() {
        log::set_max_level(log::LevelFilter::Trace);
    } else {
        log::set_max_level(log::LevelFilter::Off);
        eval::ROTATE_LOG_LEVEL.store(true, std::sync::atomic::Ordering::Relaxed);
    }

    let args: Vec<String> = std::env::args().collect();
    if args.len() >= 7 && args[1] == "unw" {
        // child of an UNW case: touch one pixel from a destructor that runs while this thread unwinds from a panic
        struct G(u32, u32, u32, u32, bool);
        impl Drop for G {
            fn drop(&mut self) {
                let mut p = flipdot_core::Page::new(flipdot_core::PageId(1), self.0, self.1);
                if self.4 {
                    p.set_pixel(self.2, self.3, true);
                    println!("SET {}", proto::hex_of_bytes(p.as_bytes()));
                } else {
                    let v = p.get_pixel(self.2, self.3);
                    println!("GET {} {}", v as u8, proto::hex_of_bytes(p.as_bytes()));
                }
                let _ = std::io::stdout().flush();
            }
        }
        let n = |i: usize| args[i].parse::<u32>().unwrap_or(0);
        let _g = G(n(2), n(3), n(4), n(5), args[6] == "S");
        panic!("unwinding");
    }
    if args.len() >= 2 && args[1] == "run" {
        let stdin = std::io::stdin();
        let stdout = std::io::stdout();
        let mut out = BufWriter::new(stdout.lock());
        for line in stdin.lock().lines() {
            let line = line.unwrap();
            writeln!(out, "{}", eval::eval_case(&line)).unwrap();
        }
        return 0;
    }
    if args.len() >= 3 && args[1] == "gen" {
        let prop = args[2].clone();
        let mut tier = "quick".to_string();
        let mut seed: u64 = 0;
        let mut out = ".".to_string();
        let mut i = 3;
        while i < args.len() {
            match args[i].as_str() {
                "--tier" => {
                    tier = args[i + 1].clone();
                    i += 2;
                }
                "--seed" => {
                    seed = args[i + 1].parse().unwrap_or(0);
                    i += 2;
                }
                "--out" => {
                    out = args[i + 1].clone();
                    i += 2;
                }
                _ => {
                    i += 1;
                }
            }
        }
        std::fs::create_dir_all(&out).unwrap();
        let mut ctx = Ctx {
            tier_thorough: tier == "thorough",
            seed,
            cases: BufWriter::new(File::create(format!("{}/cases.txt", out)).unwrap()),
            imp: BufWriter::new(File::create(format!("{}/impl.txt", out)).unwrap()),
            mon: BufWriter::new(File::create(format!("{}/monitor.txt", out)).unwrap()),
            n_cases: 0,
            n_nontrivial_distinct: 0,
            seen: HashSet::new(),
            dist: BTreeMap::new(),
            samples: vec![],
            n_monitor_fail: 0,
            monitor_checks: 0,
            notes: BTreeMap::new(),
        };
        // Corpus first: minimised past failures and finding witnesses.
        let corpus = format!("{}/corpus/{}.cases", env!("CARGO_MANIFEST_DIR").trim_end_matches("/harness"), prop);
        if let Ok(f) = File::open(&corpus) {
            for line in std::io::BufReader::new(f).lines() {
                let line = line.unwrap();
                if line.is_empty() || line.starts_with('#') {
                    continue;
                }
                ctx.case(line, true, "corpus");
            }
        }
        let aborted = std::panic::catch_unwind(std::panic::AssertUnwindSafe(|| gen::generate(&prop, &mut ctx)));
        if let Err(payload) = aborted {
            let what = payload.downcast_ref::<&str>().map(|s| s.to_string()).or_else(|| payload.downcast_ref::<String>().cloned()).unwrap_or_default();
            ctx.monitor(false, "generator-aborted", "-", &format!("the case generator itself panicked while driving the implementation; cases emitted so far are kept [{}]", what));
        }
        ctx.cases.flush().unwrap();
        ctx.imp.flush().unwrap();
        ctx.mon.flush().unwrap();
        let mut s = String::from("{");
        s.push_str(&format!("\"cases\": {}, ", ctx.n_cases));
        s.push_str(&format!("\"distinct_nontrivial\": {}, ", ctx.n_nontrivial_distinct));
        s.push_str(&format!("\"monitor_checks\": {}, ", ctx.monitor_checks));
        s.push_str(&format!("\"monitor_failures\": {}, ", ctx.n_monitor_fail));
        s.push_str("\"distribution\": {");
        s.push_str(
            &ctx.dist
                .iter()
                .map(|(k, v)| format!("{}: {}", json_str(k), v))
                .collect::<Vec<_>>()
                .join(", "),
        );
        s.push_str("}, \"notes\": {");
        s.push_str(
            &ctx.notes
                .iter()
                .map(|(k, v)| format!("{}: {}", json_str(k), json_str(v)))
                .collect::<Vec<_>>()
                .join(", "),
        );
        s.push_str("}, \"samples\": [");
        s.push_str(
            &ctx.samples
                .iter()
                .map(|(c, r)| format!("{{\"case\": {}, \"impl\": {}}}", json_str(c), json_str(r)))
                .collect::<Vec<_>>()
                .join(", "),
        );
        s.push_str("]}");
        std::fs::write(format!("{}/stats.json", out), s).unwrap();
        return 0;
    }
    eprintln!("usage: fdx gen <PROP> [--tier T] [--seed N] [--out DIR] | fdx run");
    2
}
