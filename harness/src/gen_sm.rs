//! State-machine generators: virtual sign BFS / walks (C12, C13), shared bus (C14),
//! controller reply-script DFS (C10, C11), transfer traces (C09), closed loop (C08).
use std::cell::RefCell;
use std::collections::{HashMap, VecDeque};
use std::rc::Rc;

use flipdot_core::{Address, Message, Operation, PageFlipStyle, SignBus, State};
use flipdot_testing::{VirtualSign, VirtualSignBus};

use crate::eval::{guarded, reply_of_str, run_cop, str_outcome, Reply, ScriptBus};
use crate::proto::*;
use crate::rng::Rng;
use crate::gen::SIGN_SIZES;
use crate::Ctx;

pub fn generate_sm(prop: &str, ctx: &mut Ctx) {
    match prop {
        "C08" => gen_c08(ctx),
        "C09" => {
            gen_c09(ctx);
            snn_cases(ctx);
        }
        "C10" => {
            gen_c10(ctx);
            snn_cases(ctx);
        }
        "C11" => {
            gen_c10(ctx);
            snn_cases(ctx);
        }
        "C12" | "C13" => gen_vsign(ctx),
        "C14" => gen_c14(ctx),
        _ => crate::gen_io::generate_io(prop, ctx),
    }
}

// ---------------------------------------------------------------------------------------------
// alphabet

fn hex16(b: [u8; 16]) -> String {
    hex_of_bytes(&b)
}

pub fn config_blocks() -> Vec<(String, &'static str)> {
    vec![
        (hex_of_bytes(SIGN_TYPES[2].to_bytes()), "real-90x7"),
        (hex_of_bytes(SIGN_TYPES[8].to_bytes()), "real-96x8"),
        (hex16([8, 0, 0, 0, 0, 8, 0, 8, 0, 0, 0, 0, 0, 0, 0, 0]), "tiny-horizon-8x8"),
        (hex16([4, 0, 0, 0, 8, 16, 0, 0, 0, 8, 0, 0, 0, 0, 0, 0]), "tiny-max3000-16x8"),
        (hex16([4, 0x20, 0, 6, 7, 0x1E, 0, 0, 0, 8, 0, 0, 0, 0, 0, 0]), "known-key-other-size"),
        (hex16([1, 2, 3, 4, 5, 6, 7, 8, 9, 10, 11, 12, 13, 14, 15, 16]), "unknown-family"),
        (hex16([4, 0x20, 0, 0, 7, 0x80, 0x80, 0x80, 0x80, 8, 0, 0, 0, 0, 0, 0]), "widths-over-255"),
        (hex16([4, 0x20, 0, 0, 0, 0, 0, 0, 0, 0, 0, 0, 0, 0, 0, 0]), "zero-size"),
        (hex16([8, 0xB1, 0, 0, 0, 0, 0, 160, 0, 0, 0, 0, 0, 0, 0, 0]), "zero-height"),
        (hex16([0xFF; 16]), "all-ff"),
        (hex16([8, 0, 0, 0, 0, 7, 0, 0, 0, 0, 0, 0, 0, 0, 0, 0]), "zero-width"),
        (hex16([4, 0, 0, 0, 9, 0, 0, 0, 0, 8, 0, 0, 0, 0, 0, 0]), "zero-width-max3000"),
    ]
}

fn chunk(len: usize, salt: usize) -> String {
    hex_of_bytes(&(0..len).map(|i| ((i * 7 + len + salt) & 255) as u8).collect::<Vec<u8>>())
}

/// Static part of the message alphabet for a sign with address `own`.
fn alphabet(own: u16, foreign: u16, rich: bool) -> Vec<(String, &'static str)> {
    let mut v: Vec<(String, &'static str)> = vec![];
    for a in [own, foreign] {
        v.push((format!("HE.{}", a), "hello"));
        v.push((format!("QS.{}", a), "query"));
        v.push((format!("GB.{}", a), "goodbye"));
        v.push((format!("PC.{}", a), "pixels-complete"));
        for (_, o) in OPS.iter() {
            if a == own || rich || *o == "RCF" || *o == "RPX" || *o == "SRS" {
                v.push((format!("RO.{}.{}", a, o), "request"));
            }
        }
    }
    v.push((format!("RS.{}.UNC", own), "sign-side-kind"));
    v.push((format!("AO.{}.RCF", own), "sign-side-kind"));
    v.push((format!("UN.{}.9.0102", own), "unknown-frame"));
    // frames nobody understands that look like something: a bare type-1 / type-6 frame (a chunk count or "pixels complete"
    // that was not decoded as one), a type-0 frame with a chunk's worth of data, for this sign, another one and address 1
    v.push((format!("UN.{}.1.-", own), "unknown-frame"));
    v.push(("UN.1.1.-".to_string(), "unknown-frame"));
    v.push((format!("UN.{}.6.-", own), "unknown-frame"));
    v.push((format!("UN.{}.6.-", foreign), "unknown-frame"));
    v.push((format!("UN.{}.0.{}", own, chunk(16, 3)), "unknown-frame"));
    // chunks at the top of the 16-bit offset range (offset + length passes 65535)
    v.push((format!("SD.65520.{}", chunk(16, 9)), "data-chunk-high-offset"));
    v.push((format!("SD.65535.{}", chunk(17, 9)), "data-chunk-high-offset"));
    let blocks = config_blocks();
    let nb = if rich { blocks.len() } else { 6 };
    for (b, _) in blocks.iter().take(nb) {
        v.push((format!("SD.0.{}", b), "config-block"));
    }
    v.push((format!("SD.16.{}", blocks[0].0), "config-block-offset16"));
    v.push((format!("SD.0.{}", chunk(15, 1)), "data-15@0"));
    v.push((format!("SD.0.{}", chunk(17, 1)), "data-17@0"));
    let lens: Vec<usize> = if rich { vec![0, 1, 15, 16, 17, 255] } else { vec![0, 16, 17] };
    for len in lens {
        for off in [0usize, 16, 5] {
            if len == 0 || (off == 5 && !rich && len != 16) {
                if !(len == 0 && off != 5) {
                    continue;
                }
            }
            v.push((format!("SD.{}.{}", off, chunk(len, off)), "data-chunk"));
        }
    }
    for n in [0u32, 1, 2, 3, 65535] {
        v.push((format!("DC.{}", n), "chunk-count"));
    }
    v
}

/// What the documented sign-side state machine keeps besides the reported state: the number of chunks accepted in the
/// current transfer, the bytes buffered for the page being received and the configured size.  The monitors maintain it
/// themselves from the messages delivered; nothing is read out of the implementation's private fields (a refactoring may
/// rename or restructure those freely).
#[derive(Clone, Copy, PartialEq, Eq, Hash, Default, Debug)]
struct Shadow {
    chunks: u32,
    plen: usize,
    w: u64,
    h: u64,
}

/// The shadow after a sign with address `own`, in reported state `st`, has been given `msg`.
fn shadow_after(sh: Shadow, own: Address, st: State, msg: &Message<'_>) -> Shadow {
    let mut s = sh;
    match msg {
        Message::SendData(off, data) => {
            let d: &[u8] = data.get();
            if st == State::ConfigInProgress {
                if off.0 == 0 && d.len() == 16 && (d[0] == 0x04 || d[0] == 0x08) {
                    if d[0] == 0x04 {
                        s.w = d[5..9].iter().map(|&b| b as u64).sum();
                        s.h = d[4] as u64;
                    } else {
                        s.w = d[7] as u64;
                        s.h = d[5] as u64;
                    }
                    s.chunks = (s.chunks + 1) & 0xFFFF;
                }
            } else if st == State::PixelsInProgress {
                if off.0 == 0 {
                    s.plen = 0;
                }
                s.plen += d.len();
                s.chunks = (s.chunks + 1) & 0xFFFF;
            }
        }
        Message::DataChunksSent(_) if st == State::ConfigInProgress || st == State::PixelsInProgress => {
            s.chunks = 0;
            s.plen = 0;
        }
        Message::Goodbye(a) if *a == own => s = Shadow::default(),
        Message::RequestOperation(a, Operation::FinishReset) if *a == own && st == State::ReadyToReset => s = Shadow::default(),
        _ => {}
    }
    s
}

// ---------------------------------------------------------------------------------------------
// the sign-side state table, transcribed from the protocol documentation (independent of the
// implementation and of the Coq model)

fn legal(op: Operation, st: State) -> bool {
    use Operation::*;
    use State::*;
    match op {
        ReceiveConfig => matches!(st, Unconfigured | ConfigFailed),
        ReceivePixels => matches!(st, ConfigReceived | PixelsFailed | PageLoaded | PageLoadInProgress | PageShown | PageShowInProgress | ShowingPages),
        ShowLoadedPage => st == PageLoaded,
        LoadNextPage => st == PageShown,
        StartReset => true,
        FinishReset => st == ReadyToReset,
        _ => false,
    }
}
fn after_ack(op: Operation) -> State {
    use Operation::*;
    match op {
        ReceiveConfig => State::ConfigInProgress,
        ReceivePixels => State::PixelsInProgress,
        ShowLoadedPage => State::PageShowInProgress,
        LoadNextPage => State::PageLoadInProgress,
        StartReset => State::ReadyToReset,
        FinishReset => State::Unconfigured,
        _ => State::Unconfigured,
    }
}

fn total_bytes(w: u64, h: u64) -> u64 {
    (4 + w * ((h + 7) / 8) + 15) / 16 * 16
}

/// Model-free monitors on one implementation step. Returns None if all hold.
fn step_monitor(before: &VirtualSign<'static>, sh: Shadow, auto: bool, msg: &Message<'_>, after: &VirtualSign<'static>, reply: &Option<Message<'_>>) -> Option<String> {
    let own = before.address();
    let st = before.state();
    let chunks_b = sh.chunks;
    let expect_reply: Option<Message<'static>>;
    let expect_state: State;
    let mut whole_state_unchanged = false;
    match msg {
        Message::Hello(a) | Message::QueryState(a) if *a == own => {
            expect_reply = Some(Message::ReportState(own, st));
            expect_state = match st {
                State::PageLoadInProgress => State::PageLoaded,
                State::PageShowInProgress => State::PageShown,
                s => s,
            };
        }
        Message::RequestOperation(a, op) if *a == own => {
            if legal(*op, st) {
                expect_reply = Some(Message::AckOperation(own, *op));
                expect_state = after_ack(*op);
            } else {
                expect_reply = None;
                expect_state = st;
                whole_state_unchanged = true;
            }
        }
        Message::PixelsComplete(a) if *a == own => {
            expect_reply = None;
            expect_state = if st == State::PixelsReceived {
                match auto {
                    true => State::ShowingPages,
                    false => State::PageLoaded,
                }
            } else {
                st
            };
        }
        Message::Goodbye(a) if *a == own => {
            expect_reply = None;
            expect_state = State::Unconfigured;
        }
        Message::DataChunksSent(n) => {
            expect_reply = None;
            expect_state = match st {
                State::ConfigInProgress => {
                    if n.0 as u32 == chunks_b {
                        State::ConfigReceived
                    } else {
                        State::ConfigFailed
                    }
                }
                State::PixelsInProgress => {
                    if n.0 as u32 == chunks_b {
                        State::PixelsReceived
                    } else {
                        State::PixelsFailed
                    }
                }
                s => {
                    whole_state_unchanged = true;
                    s
                }
            };
        }
        Message::SendData(_, _) => {
            expect_reply = None;
            expect_state = st;
            if st != State::ConfigInProgress && st != State::PixelsInProgress {
                whole_state_unchanged = true;
            }
        }
        _ => {
            // foreign address, or a kind a sign does not listen to
            expect_reply = None;
            expect_state = st;
            whole_state_unchanged = true;
        }
    }
    if *reply != expect_reply {
        return Some(format!("reply {} but the state machine says {}", str_omsg(reply), str_omsg(&expect_reply)));
    }
    if after.state() != expect_state {
        return Some(format!("state {} but the state machine says {}", str_state(after.state()), str_state(expect_state)));
    }
    if whole_state_unchanged && before != after {
        return Some("state changed although the message must be ignored".to_string());
    }
    // reset returns to the blank condition
    if after.state() == State::Unconfigured && (msg_is_reset(msg, own, st)) {
        let blank = VirtualSign::new(own, if auto { PageFlipStyle::Automatic } else { PageFlipStyle::Manual });
        if *after != blank {
            return Some("reset/goodbye did not return the sign to the blank unconfigured condition".to_string());
        }
    }
    // stored pages are complete pages of the configured size (the size the documented rules derive from the block)
    let Shadow { w, h, .. } = shadow_after(sh, own, st, msg);
    for p in after.pages() {
        if p.width() as u64 != w || p.height() as u64 != h || p.as_bytes().len() as u64 != total_bytes(w, h) || w == 0 || h == 0 {
            return Some(format!("stored page {}x{} ({} bytes) is not a complete page of the configured size {}x{}", p.width(), p.height(), p.as_bytes().len(), w, h));
        }
    }
    let s2 = after.state();
    if matches!(s2, State::Unconfigured | State::ConfigInProgress | State::ConfigReceived | State::ConfigFailed) && !after.pages().is_empty() {
        return Some("pages stored in a configuration state".to_string());
    }
    if let Some(t) = after.sign_type() {
        let (tw, th) = t.dimensions();
        if (tw as u64, th as u64) != (w, h) {
            return Some(format!("records type {:?} but uses size {}x{}", t, w, h));
        }
    }
    None
}

fn msg_is_reset(m: &Message<'_>, own: Address, st: State) -> bool {
    match m {
        Message::Goodbye(a) => *a == own,
        Message::RequestOperation(a, Operation::FinishReset) => *a == own && st == State::ReadyToReset,
        _ => false,
    }
}

// ---------------------------------------------------------------------------------------------
// BFS over the implementation's state graph

struct Explored {
    /// for each state: (parent index, message that led here)
    nodes: Vec<(usize, String)>,
    signs: Vec<VirtualSign<'static>>,
    shadows: Vec<Shadow>,
    fixed_point: bool,
    transitions: u64,
}

impl Explored {
    fn history(&self, mut i: usize) -> Vec<String> {
        let mut h = vec![];
        while i != 0 {
            h.push(self.nodes[i].1.clone());
            i = self.nodes[i].0;
        }
        h.reverse();
        h
    }
}

struct Bounds {
    pages: usize,
    pending_extra: u64,
    pending_pages: u64,
    chunks: u32,
    max_states: usize,
}

fn explore(ctx: &mut Ctx, own: u16, style: PageFlipStyle, rich: bool, b: &Bounds, emit: bool) -> Explored {
    let start = VirtualSign::new(Address(own), style);
    let mut ex = Explored { nodes: vec![(0, String::new())], signs: vec![start.clone()], shadows: vec![Shadow::default()], fixed_point: true, transitions: 0 };
    // a node is an implementation state together with the documented machine's own bookkeeping for the history that led
    // there (for the unchanged code the second is a function of the first, so this is the implementation's state graph)
    let mut index: HashMap<(VirtualSign<'static>, Shadow), usize> = HashMap::new();
    index.insert((start, Shadow::default()), 0);
    let auto = style == PageFlipStyle::Automatic;
    let mut queue: VecDeque<usize> = VecDeque::new();
    queue.push_back(0);
    let alpha = alphabet(own, own.wrapping_add(2), rich);
    let st = str_style(style);
    let mut scratch = VirtualSign::new(Address(own), style);
    while let Some(i) = queue.pop_front() {
        let cur = ex.signs[i].clone();
        let sh = ex.shadows[i];
        let Shadow { chunks, plen, w, h } = sh;
        // bounds: do not expand beyond them (the state itself was still checked when reached)
        let pend_bound = total_bytes(w, h) * b.pending_pages + b.pending_extra;
        if cur.pages().len() > b.pages || plen as u64 > pend_bound || chunks > b.chunks {
            continue;
        }
        let hist = ex.history(i);
        let mut msgs: Vec<(String, &'static str)> = alpha.clone();
        for n in [chunks as i64 - 1, chunks as i64, chunks as i64 + 1] {
            if n >= 4 && n <= 65535 {
                msgs.push((format!("DC.{}", n), "chunk-count-true±1"));
            }
        }
        for (m, class) in msgs {
            let msg = msg_of_str(&m);
            // every other copy of the state is made with Clone::clone_from onto an object that was in another state
            let mut next = if ex.transitions % 2 == 1 {
                scratch.clone_from(&cur);
                scratch.clone()
            } else {
                cur.clone()
            };
            let r = guarded(|| next.process_message(&msg));
            scratch.clone_from(&next);
            ex.transitions += 1;
            let line = format!("VSL {} {} {}{}{}", own, st, hist.join(" "), if hist.is_empty() { "" } else { " " }, m);
            if emit {
                ctx.case(line.clone(), true, class);
            }
            match r {
                None => {
                    ctx.monitor(false, "C12-no-panic", &line, "process_message panicked");
                    continue;
                }
                Some(reply) => {
                    ctx.monitor(true, "C12-no-panic", &line, "");
                    let v = step_monitor(&cur, sh, auto, &msg, &next, &reply);
                    ctx.monitor(v.is_none(), "C13-state-machine", &line, v.as_deref().unwrap_or(""));
                }
            }
            let sh_next = shadow_after(sh, cur.address(), cur.state(), &msg);
            let key = (next, sh_next);
            if !index.contains_key(&key) {
                if ex.signs.len() >= b.max_states {
                    ex.fixed_point = false;
                    continue;
                }
                let j = ex.signs.len();
                index.insert(key.clone(), j);
                let (next, _) = key;
                ex.signs.push(next);
                ex.shadows.push(sh_next);
                ex.nodes.push((i, m.clone()));
                queue.push_back(j);
            }
        }
    }
    ex
}

fn gen_vsign(ctx: &mut Ctx) {
    let thorough = ctx.tier_thorough;
    let mut total_states = 0usize;
    let mut all_fixed = true;
    for (k, style) in [PageFlipStyle::Manual, PageFlipStyle::Automatic].into_iter().enumerate() {
        let b = if thorough {
            Bounds { pages: 2, pending_extra: 32, pending_pages: 1, chunks: 4, max_states: 60000 }
        } else {
            Bounds { pages: 1, pending_extra: 17, pending_pages: 1, chunks: 2, max_states: 30000 }
        };
        let own = if k == 0 { 3 } else { 0xFFFE };
        let ex = explore(ctx, own, style, thorough, &b, true);
        total_states += ex.signs.len();
        all_fixed &= ex.fixed_point;
        ctx.notes.insert(
            format!("bfs-{}", str_style(style)),
            format!("{} distinct implementation states, {} transitions, fixed point under bounds: {}", ex.signs.len(), ex.transitions, ex.fixed_point),
        );
    }
    ctx.notes.insert("bfs-total-states".into(), total_states.to_string());
    ctx.notes.insert("bfs-fixed-point".into(), all_fixed.to_string());

    // random walks (every step monitored; compared with the model step by step)
    let mut rng = Rng::new(ctx.seed, 12);
    let walks = if thorough { 40 } else { 8 };
    let steps = if thorough { 3000 } else { 600 };
    for wk in 0..walks {
        // (every address class in every run, whatever the seed)
        let _ = rng.pick(&[0u16, 3, 0x7F, 0xFFFF]);
        let own = [0xFFFFu16, 3, 0, 0x7F, 0x0103, 0xFF00, 3, 0xFFFF][wk % 8];
        let style = if wk % 2 == 0 { PageFlipStyle::Manual } else { PageFlipStyle::Automatic };
        let alpha = alphabet(own, own.wrapping_add(1), true);
        let mut s = VirtualSign::new(Address(own), style);
        let mut sh = Shadow::default();
        let mut hist: Vec<String> = vec![];
        for _ in 0..steps {
            let Shadow { chunks, plen, w, h } = sh;
            // bias towards making progress: legal requests and the true count half of the time
            let m: String = match rng.below(10) {
                0 | 1 => format!("DC.{}", chunks),
                2 => {
                    let legal_ops: Vec<&str> = OPS.iter().filter(|(o, _)| legal(*o, s.state())).map(|(_, n)| *n).collect();
                    format!("RO.{}.{}", own, rng.pick(&legal_ops))
                }
                3 if s.state() == State::PixelsInProgress && w > 0 && h > 0 => {
                    // a well-formed chunk continuing the current page
                    let total = total_bytes(w, h) as usize;
                    let off = if plen >= total { 0 } else { plen };
                    let len = 16.min(total - off.min(total - 1));
                    format!("SD.{}.{}", off, hex_of_bytes(&rng.bytes(len)))
                }
                4 => format!("SD.{}.{}", rng.below(3) * 16, hex_of_bytes(&{
                    let n = rng.below(256) as usize;
                    rng.bytes(n)
                })),
                5 if s.state() == State::ConfigInProgress => format!("SD.0.{}", hex_of_bytes(&rng.bytes(16))),
                _ => rng.pick(&alpha).0.clone(),
            };
            let msg = msg_of_str(&m);
            let before = s.clone();
            let r = guarded(|| s.process_message(&msg));
            hist.push(m);
            match r {
                None => {
                    ctx.monitor(false, "C12-no-panic", &format!("VS {} {} {}", own, str_style(style), hist.join(" ")), "process_message panicked");
                    break;
                }
                Some(reply) => {
                    let v = step_monitor(&before, sh, style == PageFlipStyle::Automatic, &msg, &s, &reply);
                    sh = shadow_after(sh, before.address(), before.state(), &msg);
                    if v.is_some() {
                        ctx.monitor(false, "C13-state-machine", &format!("VS {} {} {}", own, str_style(style), hist.join(" ")), v.as_deref().unwrap());
                        break;
                    } else {
                        ctx.monitor(true, "C13-state-machine", "", "");
                    }
                }
            }
        }
        ctx.case(format!("VS {} {} {}", own, str_style(style), hist.join(" ")), true, "random-walk");
    }
    // configuration blocks carrying a supported (family, id) but arbitrary other fields (every single-byte variation
    // of the 11 real blocks over boundary values), each followed by a short pixel transfer and a flush
    for i in 0..11usize {
        let real = SIGN_TYPES[i].to_bytes().to_vec();
        let mut vi = 0usize;
        for pos in 2..16usize {
            for v in [0u8, 1, 0x10, 0x7F, 0x80, 0xFF] {
                vi += 1;
                if real[pos] == v || (!thorough && (pos + vi + i) % 3 != 0) {
                    continue;
                }
                let mut b = real.clone();
                b[pos] = v;
                let own = 3u16;
                let line = format!(
                    "VSL {} A RO.{}.RCF SD.0.{} DC.1 QS.{} RO.{}.RPX SD.0.{} SD.16.{} DC.2 QS.{} PC.{} QS.{}",
                    own, own, hex_of_bytes(&b), own, own, chunk(16, pos), chunk(16, vi), own, own, own
                );
                let res = ctx.case(line.clone(), true, "varied-real-config-block");
                ctx.monitor(!res.contains("PANIC"), "C12-no-panic", &line, &res);
            }
        }
    }
    // several pages in one transfer, including pages that share an id: every complete page is stored, in arrival order
    for (ti, idsets) in [(2usize, vec![vec![0u8, 0, 0], vec![7, 3, 7], vec![1, 1], vec![254, 255, 0]]), (5, vec![vec![5, 6, 5, 6], vec![9, 9], vec![255, 255], vec![255, 0, 1]]), (3, vec![vec![2, 2, 3], vec![4, 8, 4]])] {
        for ids in idsets {
            for style in ["M", "A"] {
                let (w, h) = SIGN_SIZES[ti];
                let total = total_bytes(w as u64, h as u64) as usize;
                let mut msgs = vec!["RO.3.RCF".to_string(), format!("SD.0.{}", hex_of_bytes(SIGN_TYPES[ti].to_bytes())), "DC.1".to_string(), "RO.3.RPX".to_string()];
                let mut n = 0;
                for (pi, id) in ids.iter().enumerate() {
                    let mut page: Vec<u8> = (0..total).map(|x| ((x * 5 + pi * 31 + 1) & 255) as u8).collect();
                    page[0] = *id;
                    for (k, c) in page.chunks(16).enumerate() {
                        msgs.push(format!("SD.{}.{}", k * 16, hex_of_bytes(c)));
                        n += 1;
                    }
                }
                msgs.push(format!("DC.{}", n));
                msgs.push("QS.3".to_string());
                msgs.push("PC.3".to_string());
                msgs.push("QS.3".to_string());
                let line = format!("VSL 3 {} {}", style, msgs.join(" "));
                let res = ctx.case(line.clone(), true, "pages-sharing-an-id");
                let stored = res.split(" # ").nth(1).map(|s| if s == "-" { 0 } else { s.split('+').count() }).unwrap_or(0);
                ctx.monitor(stored == ids.len(), "C13-state-machine", &line[..line.len().min(400)], &format!("{} pages sent, {} stored", ids.len(), stored));
            }
        }
    }
    // custom geometries (configuration blocks of no known type): tall multi-chunk pages, non-zero reserved bytes, the
    // largest sizes a block can express -- each followed by one complete page of exactly that size
    {
        let mut geos: Vec<(Vec<u8>, u32, u32)> = vec![];
        for (w, h) in [(12u32, 24u32), (20, 17), (30, 60), (4, 24), (7, 33), (255, 255), (1, 255), (255, 1)] {
            geos.push((vec![8, 0, 0, 0, 0, h as u8, 0, w as u8, 0, 0, 0, 0, 0, 0, 0, 0], w, h));
            // Horizon blocks whose reserved bytes (2, 3, 4, 6, 8..) are not zero: width is byte 7, height byte 5, only
            geos.push((vec![8, 0, 9, 9, 9, h as u8, (w % 7 + 1) as u8, w as u8, 3, 3, 3, 3, 1, 1, 1, 1], w, h));
        }
        for (h, ws) in [(24u32, [6u8, 6, 0, 0]), (16, [255, 255, 255, 255]), (255, [255, 255, 255, 255]), (249, [255, 255, 255, 255]), (17, [10, 0, 0, 10]), (1, [0, 0, 0, 1])] {
            let w: u32 = ws.iter().map(|x| *x as u32).sum();
            geos.push((vec![4, 0, 0, 0, h as u8, ws[0], ws[1], ws[2], ws[3], 8, 0, 0, 0, 0, 0, 0], w, h));
        }
        for (gi, (block, w, h)) in geos.iter().enumerate() {
            if !thorough && *w * *h > 70000 && gi % 2 == 1 {
                continue;
            }
            let total = total_bytes(*w as u64, *h as u64) as usize;
            let mut page: Vec<u8> = (0..total).map(|x| ((x * 11 + gi) & 255) as u8).collect();
            page[0] = 3;
            let mut msgs = vec!["RO.3.RCF".to_string(), format!("SD.0.{}", hex_of_bytes(block)), "DC.1".to_string(), "QS.3".to_string(), "RO.3.RPX".to_string()];
            let mut n = 0u32;
            for (k, c) in page.chunks(16).enumerate() {
                msgs.push(format!("SD.{}.{}", (k * 16) % 65536, hex_of_bytes(c)));
                n += 1;
            }
            msgs.push(format!("DC.{}", n));
            msgs.push("QS.3".to_string());
            let line = format!("VSL 3 M {}", msgs.join(" "));
            let res = ctx.case(line.clone(), true, "custom-geometry");
            let stored = res.split(" # ").nth(1).unwrap_or("-");
            let want = format!("{}.{}.{}", w, h, hex_of_bytes(&page));
            ctx.monitor(stored == want, "C13-state-machine", &format!("VSL 3 M <configure {}x{} with block {}, one complete page of {} bytes>", w, h, hex_of_bytes(block), total), &format!("stored: {}", &stored[..stored.len().min(60)]));
        }
    }
    // every configuration block of the alphabet -- also the ones that configure no size at all (zero width, zero height,
    // unknown family, all FF) -- followed by a pixel transfer of exactly 16, 32 and 48 bytes: only a sign with a size stores pages
    for (bi, (block, _)) in config_blocks().iter().enumerate() {
        for nchunks in [1usize, 2, 3] {
            let mut msgs = vec!["RO.3.RCF".to_string(), format!("SD.0.{}", block), "DC.1".to_string(), "QS.3".to_string(), "RO.3.RPX".to_string()];
            for k in 0..nchunks {
                msgs.push(format!("SD.{}.{}", k * 16, chunk(16, bi + k)));
            }
            msgs.push(format!("DC.{}", nchunks));
            for m in ["QS.3", "PC.3", "QS.3", "RO.3.SLP", "QS.3", "QS.3"] {
                msgs.push(m.to_string());
            }
            for style in ["M", "A"] {
                let line = format!("VSL 3 {} {}", style, msgs.join(" "));
                let res = ctx.case(line.clone(), true, "every-config-block-then-small-transfer");
                ctx.monitor(!res.contains("PANIC"), "C12-no-panic", &line, &res[..res.len().min(200)]);
            }
        }
    }
    // narrow custom geometries (widths 1..=12, heights 1, 7, 8, 9) with page numbers of one, two and three digits: a complete
    // page, the dump of it at PixelsComplete, and a flip
    for w in 1u32..=12 {
        for h in [1u32, 7, 8, 9] {
            for id in [0u8, 5, 9, 10, 42, 99, 100, 255] {
                if !thorough && (w + h + id as u32) % 3 != 0 {
                    continue;
                }
                let block = vec![8u8, 0, 0, 0, 0, h as u8, 0, w as u8, 0, 0, 0, 0, 0, 0, 0, 0];
                let total = total_bytes(w as u64, h as u64) as usize;
                let mut page: Vec<u8> = (0..total).map(|x| ((x * 7 + w as usize) & 255) as u8).collect();
                page[0] = id;
                let mut msgs = vec!["RO.3.RCF".to_string(), format!("SD.0.{}", hex_of_bytes(&block)), "DC.1".to_string(), "RO.3.RPX".to_string()];
                for (k, c) in page.chunks(16).enumerate() {
                    msgs.push(format!("SD.{}.{}", k * 16, hex_of_bytes(c)));
                }
                msgs.push(format!("DC.{}", (total + 15) / 16));
                for m in ["QS.3", "PC.3", "QS.3", "RO.3.SLP", "QS.3", "QS.3"] {
                    msgs.push(m.to_string());
                }
                let line = format!("VSL 3 M {}", msgs.join(" "));
                let res = ctx.case(line.clone(), true, "narrow-geometry-page-numbers");
                ctx.monitor(!res.contains("PANIC"), "C12-no-panic", &line, &res[..res.len().min(200)]);
            }
        }
    }
    // flip part of the way through a list of pages, then a second transfer (fewer, as many, more pages, or none), then flip
    // again: whatever the sign remembers about where it was in the old list must not outlive the list
    for l1 in 1usize..=4 {
        for flips in 0usize..=4 {
            for l2 in 0usize..=3 {
                if !thorough && (l1 + flips + l2) % 2 == 1 {
                    continue;
                }
                let mut msgs = vec!["RO.3.RCF".to_string(), format!("SD.0.{}", config_blocks()[2].0), "DC.1".to_string()];
                for (li, l) in [l1, l2].iter().enumerate() {
                    msgs.push("RO.3.RPX".to_string());
                    for i in 0..*l {
                        msgs.push(format!("SD.0.{}", hex_of_bytes(&[(10 * li + i) as u8, 0x10, 0, 0, 1, 2, 3, 4, 5, 6, 7, 8, 0xFF, 0xFF, 0xFF, 0xFF])));
                    }
                    msgs.push(format!("DC.{}", l));
                    msgs.push("QS.3".to_string());
                    msgs.push("PC.3".to_string());
                    msgs.push("QS.3".to_string());
                    for f in 0..(if li == 0 { flips } else { 5 }) {
                        msgs.push(if f % 2 == 0 { "RO.3.SLP" } else { "RO.3.LNP" }.to_string());
                        msgs.push("QS.3".to_string());
                        msgs.push("QS.3".to_string());
                    }
                }
                for style in ["M", "A"] {
                    let line = format!("VSL 3 {} {}", style, msgs.join(" "));
                    let res = ctx.case(line.clone(), true, "flip-then-shorter-list-then-flip");
                    ctx.monitor(!res.contains("PANIC"), "C12-no-panic", &line, &res[..res.len().min(200)]);
                }
            }
        }
    }
    // 65 540 configuration blocks in one configuration phase, and 65 540 chunks in one pixel phase (16-bit counters)
    {
        let blk = &config_blocks()[0].0;
        let mut msgs = vec!["RO.3.RCF".to_string()];
        for _ in 0..65540 {
            msgs.push(format!("SD.0.{}", blk));
        }
        msgs.push("DC.4".to_string());
        msgs.push("QS.3".to_string());
        let line = format!("VSL 3 M {}", msgs.join(" "));
        let res = ctx.case(line, true, "chunk-counter-wrap");
        ctx.monitor(!res.contains("PANIC"), "C12-no-panic", "VSL 3 M <65540 configuration blocks in ConfigInProgress>", &res);
        let mut msgs = vec!["RO.3.RCF".to_string(), format!("SD.0.{}", config_blocks()[2].0), "DC.1".to_string(), "RO.3.RPX".to_string()];
        for i in 0..65540 {
            // (empty chunks: the model appends to the pending buffer by list concatenation, which is quadratic)
            msgs.push(if i % 8192 == 5 { "SD.32.07".to_string() } else { "SD.16.-".to_string() });
        }
        msgs.push("DC.4".to_string());
        msgs.push("QS.3".to_string());
        let line = format!("VSL 3 M {}", msgs.join(" "));
        let res = ctx.case(line, true, "chunk-counter-wrap");
        ctx.monitor(!res.contains("PANIC"), "C12-no-panic", "VSL 3 M <65540 chunks in PixelsInProgress>", &res);
    }
    // more than 65535 bytes buffered since the last offset-0 chunk (large chunks at non-zero offsets, no count message)
    {
        let mut msgs = vec!["RO.3.RCF".to_string(), format!("SD.0.{}", config_blocks()[0].0), "DC.1".to_string(), "RO.3.RPX".to_string(), format!("SD.0.{}", chunk(16, 0))];
        for i in 0..262 {
            msgs.push(format!("SD.{}.{}", 16 + (i % 7) * 16, chunk(255, i)));
        }
        msgs.push("DC.263".to_string());
        msgs.push("QS.3".to_string());
        let line = format!("VSL 3 M {}", msgs.join(" "));
        let res = ctx.case(line.clone(), true, "many-buffered-bytes");
        ctx.monitor(!res.contains("PANIC"), "C12-no-panic", "VSL 3 M <262 chunks of 255 bytes at non-zero offsets>", &res);
    }
    // a runaway of exactly `cap` buffered bytes (no offset-0 chunk), then exactly one page's worth of bytes, then the count:
    // what was buffered since the last offset 0 is not a page, so nothing is stored -- whatever the buffer's size
    for cap in [4096usize, 8192, 16384, 32768, 65520, 65535, 65536, 65552, 131072] {
        let mut msgs = vec!["RO.3.RCF".to_string(), format!("SD.0.{}", config_blocks()[2].0), "DC.1".to_string(), "RO.3.RPX".to_string()];
        let mut n = 0usize;
        let mut left = cap;
        while left > 0 {
            let len = left.min(255);
            msgs.push(format!("SD.{}.{}", 16 + (n % 5) * 16, chunk(len, n)));
            left -= len;
            n += 1;
        }
        msgs.push(format!("SD.16.{}", hex_of_bytes(&[9, 0x10, 0, 0, 1, 2, 3, 4, 5, 6, 7, 8, 0xFF, 0xFF, 0xFF, 0xFF])));
        n += 1;
        msgs.push(format!("DC.{}", n % 65536));
        msgs.push("QS.3".to_string());
        msgs.push("PC.3".to_string());
        msgs.push("QS.3".to_string());
        let line = format!("VSL 3 M {}", msgs.join(" "));
        let res = ctx.case(line, true, "runaway-then-one-page");
        let last = res.split(" # ").next().unwrap_or("").split(' ').filter(|x| !x.is_empty()).last().unwrap_or("").to_string();
        let stored = last.split('/').nth(1).and_then(|o| o.split('.').nth(2)).unwrap_or("?").to_string();
        ctx.monitor(stored == "0", "C13-stored-pages", &format!("VSL 3 M <{} bytes at non-zero offsets, then 16 bytes (one page's worth), then the count>", cap), &format!("{} page(s) stored: {}", stored, last));
    }
    // page lists of 255, 256, 257 and 512 one-chunk pages in one transfer, then the whole flip cycle (show, settle, load
    // next, settle, show again)
    for npages in [255usize, 256, 257, 512] {
        let mut msgs = vec!["RO.3.RCF".to_string(), format!("SD.0.{}", config_blocks()[2].0), "DC.1".to_string(), "RO.3.RPX".to_string()];
        for i in 0..npages {
            let mut page = vec![(i % 256) as u8, 0x10, 0, 0, 1, 2, 3, 4, 5, 6, 7, 8, 0xFF, 0xFF, 0xFF, 0xFF];
            page[4] = (i / 256) as u8;
            msgs.push(format!("SD.0.{}", hex_of_bytes(&page)));
        }
        msgs.push(format!("DC.{}", npages));
        for m in ["QS.3", "PC.3", "QS.3", "RO.3.SLP", "QS.3", "QS.3", "RO.3.LNP", "QS.3", "QS.3", "RO.3.SLP", "QS.3", "QS.3", "RO.3.LNP", "QS.3"] {
            msgs.push(m.to_string());
        }
        let line = format!("VSL 3 M {}", msgs.join(" "));
        let res = ctx.case(line, true, "many-pages-then-flip");
        ctx.monitor(!res.contains("PANIC"), "C12-no-panic", &format!("VSL 3 M <{} one-chunk pages, then show / load next twice>", npages), &res[..res.len().min(200)]);
    }
    // page lists that begin with page number 0xFF (and 0xFE, 0xFF, 0x00), through the flip cycle
    for ids in [vec![0xFFu8], vec![0xFF, 0x00], vec![0xFE, 0xFF, 0x00], vec![0xFF, 0xFF]] {
        let mut msgs = vec!["RO.3.RCF".to_string(), format!("SD.0.{}", config_blocks()[2].0), "DC.1".to_string(), "RO.3.RPX".to_string()];
        for id in &ids {
            msgs.push(format!("SD.0.{}", hex_of_bytes(&[*id, 0x10, 0, 0, 1, 2, 3, 4, 5, 6, 7, 8, 0xFF, 0xFF, 0xFF, 0xFF])));
        }
        msgs.push(format!("DC.{}", ids.len()));
        for m in ["QS.3", "PC.3", "QS.3", "RO.3.SLP", "QS.3", "QS.3", "RO.3.LNP", "QS.3", "QS.3", "RO.3.SLP", "QS.3", "QS.3", "RO.3.LNP", "QS.3", "QS.3", "RO.3.SLP", "QS.3", "QS.3", "RO.3.LNP", "QS.3"] {
            msgs.push(m.to_string());
        }
        let line = format!("VSL 3 M {}", msgs.join(" "));
        let res = ctx.case(line.clone(), true, "page-number-ff-then-flip");
        ctx.monitor(!res.contains("PANIC"), "C12-no-panic", &line, &res[..res.len().min(200)]);
    }
    // one unbroken, strictly in-order stream of chunks from offset 0 until offset + length passes 65 535 (258 chunks of 255
    // bytes; 4 097 chunks of 16 bytes), then the count
    for (clen, n) in [(255usize, 258usize), (16, 4097)] {
        let mut msgs = vec!["RO.3.RCF".to_string(), format!("SD.0.{}", config_blocks()[0].0), "DC.1".to_string(), "RO.3.RPX".to_string()];
        for i in 0..n {
            msgs.push(format!("SD.{}.{}", (i * clen).min(65535), chunk(clen, i)));
        }
        msgs.push(format!("DC.{}", n));
        msgs.push("QS.3".to_string());
        let line = format!("VSL 3 M {}", msgs.join(" "));
        let res = ctx.case(line, true, "in-order-stream-past-65535");
        ctx.monitor(!res.contains("PANIC"), "C12-no-panic", &format!("VSL 3 M <{} in-order chunks of {} bytes from offset 0>", n, clen), &res[..res.len().min(200)]);
    }
    // custom geometries taller than two bytes per column, with pages of several chunks: a correct, correctly counted
    // transfer is stored whatever the shape
    for (fam, w, h) in [(4u8, 32u32, 24u32), (4, 60, 40), (8, 32, 24), (8, 100, 20), (4, 8, 17), (8, 16, 33), (4, 120, 64), (8, 160, 24)] {
        let block: Vec<u8> = if fam == 4 {
            let (w1, w2) = (w.min(255), w.saturating_sub(255));
            vec![4, 0x20, 0, 0, h as u8, w1 as u8, w2 as u8, 0, 0, (8 * ((h + 7) / 8)) as u8, 0, 0, 0, 0, 0, 0]
        } else {
            vec![8, 0xB1, 0, 0, 0, h as u8, 0, w as u8, 0, 0, 0, 0, 0, 0, 0, 0]
        };
        let total = total_bytes(w as u64, h as u64) as usize;
        let page: Vec<u8> = (0..total).map(|i| if i == 0 { 9 } else { (i * 7 % 251) as u8 }).collect();
        let mut msgs = vec!["RO.3.RCF".to_string(), format!("SD.0.{}", hex_of_bytes(&block)), "DC.1".to_string(), "QS.3".to_string(), "RO.3.RPX".to_string()];
        let mut n = 0;
        for (k, c) in page.chunks(16).enumerate() {
            msgs.push(format!("SD.{}.{}", k * 16, hex_of_bytes(c)));
            n += 1;
        }
        msgs.push(format!("DC.{}", n));
        msgs.push("QS.3".to_string());
        let line = format!("VS 3 A {}", msgs.join(" "));
        let res = ctx.case(line.clone(), true, "tall-custom-geometry");
        let want_pages = format!("# {}.{}.{}", w, h, hex_of_bytes(&page));
        ctx.monitor(res.ends_with(&want_pages), "C13-state-machine", &line[..line.len().min(400)], "a complete, correctly counted page of the configured size was not stored");
    }
    // transfers made of nothing but 0xFF (what padding looks like): exactly one page, a chunk too many, two pages, half a
    // page, with the right and a wrong count, ended by the count or by a new page
    for (bi, plen) in [(0usize, 96usize), (2, 16)] {
        let block = &config_blocks()[bi].0;
        let ff16 = hex_of_bytes(&[0xFFu8; 16]);
        let p = plen / 16;
        for (nchunks, wrap) in [(p, false), (p + 1, false), (2 * p, true), (2 * p, false), ((p / 2).max(1), false), (2 * p + 1, true), (3 * p, false)] {
            for count_delta in [0i64, 1] {
                for restart in [false, true] {
                    let mut msgs = vec!["RO.3.RCF".to_string(), format!("SD.0.{}", block), "DC.1".to_string(), "RO.3.RPX".to_string()];
                    for i in 0..nchunks {
                        msgs.push(format!("SD.{}.{}", if wrap { (i * 16) % plen } else { i * 16 }, ff16));
                    }
                    if restart {
                        msgs.push(format!("SD.0.{}", chunk(16, 1)));
                    }
                    msgs.push(format!("DC.{}", nchunks as i64 + restart as i64 + count_delta));
                    msgs.extend(["QS.3".to_string(), "PC.3".to_string(), "QS.3".to_string()]);
                    let line = format!("VSL 3 M {}", msgs.join(" "));
                    let res = ctx.case(line.clone(), true, "all-ff-transfer");
                    ctx.monitor(!res.contains("PANIC"), "C12-no-panic", &line, &res[..res.len().min(200)]);
                }
            }
        }
    }
    // the 16-bit chunk counter: a transfer longer than 65535 chunks
    if thorough {
        let mut msgs = vec!["RO.3.RCF".to_string(), format!("SD.0.{}", config_blocks()[2].0), "DC.1".to_string(), "RO.3.RPX".to_string()];
        for _ in 0..65540 {
            msgs.push("SD.16.-".to_string());
        }
        msgs.push("DC.4".to_string());
        msgs.push("QS.3".to_string());
        let line = format!("VSL 3 M {}", msgs.join(" "));
        let res = ctx.case(line.clone(), true, "chunk-counter-wrap");
        ctx.monitor(!res.contains("PANIC"), "C12-no-panic", "VSL 3 M <65540 chunks>", &res);
    }
}

// ---------------------------------------------------------------------------------------------
// C14: several signs on one bus

fn gen_c14(ctx: &mut Ctx) {
    let mut rng = Rng::new(ctx.seed, 14);
    let thorough = ctx.tier_thorough;
    let walks = if thorough { 400 } else { 60 };
    let steps = if thorough { 400 } else { 150 };
    let all_addrs = [3u16, 5, 0x7F, 0xFFFF];
    for wk in 0..walks {
        let k = 1 + (wk % 4);
        // every third walk uses addresses that coincide with data-frame header values (chunk offsets 0/16, counts 1/2)
        // ... and every fifth walk addresses that agree in their low byte (3 / 0x0103, 0xFF / 0xFFFF)
        let addrs: Vec<u16> = if wk % 5 == 4 { [3u16, 0x0103, 0xFFFF, 0x00FF][..k].to_vec() } else if wk % 3 == 2 { [16u16, 1, 0, 2][..k].to_vec() } else { all_addrs[..k].to_vec() };
        let styles: Vec<PageFlipStyle> = (0..k).map(|i| if (wk / 4 + i) % 2 == 0 { PageFlipStyle::Manual } else { PageFlipStyle::Automatic }).collect();
        let signs: Vec<VirtualSign<'static>> = (0..k).map(|i| VirtualSign::new(Address(addrs[i]), styles[i])).collect();
        let mut bus = VirtualSignBus::new(signs);
        // One solo twin per sign, fed only what the property says may concern that sign: messages carrying its
        // address, and unaddressed data while the twin itself is receiving.  Each sign on the shared bus must stay
        // observably equal to its twin for the whole history (so hidden state picked up from foreign traffic
        // shows as soon as it has an effect).
        let mut twins: Vec<VirtualSign<'static>> = (0..k).map(|i| VirtualSign::new(Address(addrs[i]), styles[i])).collect();
        let mut shadows: Vec<Shadow> = vec![Shadow::default(); k];
        let absent = [9u16, 0];
        let mut hist: Vec<String> = vec![];
        let head: String = (0..k).map(|i| format!("{} {}", addrs[i], str_style(styles[i]))).collect::<Vec<_>>().join(" ");
        let blocks = config_blocks();
        let mut failed = false;
        // every other walk opens with a scripted stretch that leaves the first sign with hidden luggage, then carries on at
        // random: a configured sign whose pixel transfer (one whole page buffered, or half a page, or a page and a chunk) is
        // cut off by StartReset, by nothing at all, or by a wrong count -- followed by offset-0 data meant for the others
        let mut scripted: VecDeque<String> = VecDeque::new();
        if wk % 2 == 1 {
            let a0 = addrs[0];
            scripted.extend([format!("RO.{}.RCF", a0), format!("SD.0.{}", blocks[0].0), "DC.1".to_string(), format!("RO.{}.RPX", a0)]);
            let nchunks = [6usize, 3, 7, 6][(wk / 2) % 4];
            for i in 0..nchunks {
                scripted.push_back(format!("SD.{}.{}", i * 16, chunk(16, i + wk)));
            }
            match (wk / 8) % 3 {
                0 => scripted.push_back(format!("RO.{}.SRS", a0)),
                1 => {}
                _ => scripted.push_back("DC.99".to_string()),
            }
            if k > 1 {
                let a1 = addrs[1];
                scripted.extend([format!("RO.{}.RCF", a1), format!("SD.0.{}", blocks[1].0), "DC.1".to_string(), format!("RO.{}.RPX", a1), format!("SD.0.{}", chunk(16, 1)), format!("SD.16.{}", chunk(16, 2))]);
            } else {
                scripted.extend([format!("SD.0.{}", chunk(16, 1)), format!("SD.0.{}", blocks[1].0)]);
            }
            scripted.extend([format!("QS.{}", a0), format!("HE.{}", a0)]);
        }
        if wk % 4 == 2 {
            // ... and every fourth walk with each sign in turn being asked to receive (a configuration or pixels, with or without
            // a first chunk), dropped (goodbye, the reset dance, or just left), and then taken through a whole configuration
            // and a whole one-page transfer: whatever the BUS remembers about who is receiving must follow the signs
            for (i, a) in addrs.iter().enumerate() {
                let v = wk / 4 + i;
                scripted.push_back(format!("RO.{}.{}", a, if v % 2 == 0 { "RCF" } else { "RPX" }));
                if v % 3 == 1 {
                    scripted.push_back(format!("SD.0.{}", blocks[2].0));
                }
                match v % 4 {
                    0 | 3 => scripted.push_back(format!("GB.{}", a)),
                    1 => scripted.extend([format!("RO.{}.SRS", a), format!("HE.{}", a), format!("RO.{}.FRS", a), format!("HE.{}", a)]),
                    _ => {}
                }
                scripted.extend([format!("RO.{}.RCF", a), format!("SD.0.{}", blocks[2].0), "DC.1".to_string(), format!("QS.{}", a)]);
                scripted.extend([format!("RO.{}.RPX", a), format!("SD.0.{}", hex_of_bytes(&[i as u8, 0x10, 0, 0, 1, 2, 3, 4, 5, 6, 7, 8, 0xFF, 0xFF, 0xFF, 0xFF])), "DC.1".to_string(), format!("QS.{}", a), format!("PC.{}", a), format!("QS.{}", a)]);
            }
        }
        for _ in 0..steps {
            let target = if rng.chance(1, 8) { *rng.pick(&absent).max(&if addrs.contains(&0) { 9 } else { 0 }) } else { *rng.pick(&addrs) };
            let ti = addrs.iter().position(|a| *a == target);
            let m: String = if let Some(m) = scripted.pop_front() { m } else { match rng.below(14) {
                12 => format!("UN.{}.{}.-", target, rng.pick(&[6u8, 1, 2, 9])),
                13 => format!("UN.{}.{}.{}", target, rng.pick(&[0u8, 1, 6]), chunk(rng.pick(&[1usize, 2, 16]).clone(), 5)),
                0 => format!("HE.{}", target),
                1 => format!("QS.{}", target),
                2 | 3 => {
                    // a legal request for the target if there is one, to keep signs moving
                    match ti {
                        Some(i) => {
                            let st = bus.sign(i).state();
                            let legal_ops: Vec<&str> = OPS.iter().filter(|(o, _)| legal(*o, st) && (*o != Operation::StartReset || rng.0 % 5 == 0)).map(|(_, n)| *n).collect();
                            if legal_ops.is_empty() {
                                format!("RO.{}.SRS", target)
                            } else {
                                format!("RO.{}.{}", target, rng.pick(&legal_ops))
                            }
                        }
                        None => format!("RO.{}.RCF", target),
                    }
                }
                4 => format!("RO.{}.{}", target, rng.pick(&OPS).1),
                5 => format!("PC.{}", target),
                6 => {
                    if rng.chance(1, 6) {
                        format!("GB.{}", target)
                    } else {
                        format!("PC.{}", target)
                    }
                }
                7 => format!("SD.0.{}", rng.pick(&blocks[..4]).0),
                8 | 9 => format!("SD.{}.{}", rng.below(2) * 16, chunk(16, rng.below(4) as usize)),
                10 => {
                    // the true count of some sign
                    let i = rng.below(k as u64) as usize;
                    format!("DC.{}", shadows[i].chunks)
                }
                _ => format!("DC.{}", rng.below(4)),
            } };
            let msg = msg_of_str(&m);
            if hist.len() % 7 == 3 {
                // carry on with a copy made by Clone::clone_from onto a fresh bus of the same signs
                let mut copy = VirtualSignBus::new((0..k).map(|i| VirtualSign::new(Address(addrs[i]), styles[i])).collect::<Vec<_>>());
                copy.clone_from(&bus);
                bus = copy;
            }
            let before: Vec<VirtualSign<'static>> = (0..k).map(|i| bus.sign(i).clone()).collect();
            for i in 0..k {
                shadows[i] = shadow_after(shadows[i], Address(addrs[i]), before[i].state(), &msg);
            }
            // odd walks reach the bus through the SignBus trait (as Sign and Odk do), even ones call it directly
            fn via_trait<'a, B: flipdot_core::SignBus>(b: &mut B, m: Message<'_>) -> Result<Option<Message<'a>>, Box<dyn std::error::Error + Send + Sync>> {
                b.process_message(m)
            }
            let r = if wk % 2 == 1 { guarded(|| via_trait(&mut bus, msg_of_str(&m))) } else { guarded(|| bus.process_message(msg_of_str(&m))) };
            hist.push(m.clone());
            let line = format!("BUS {} {} {}", k, head, hist.join(" "));
            let reply = match r {
                None | Some(Err(_)) => {
                    ctx.monitor(false, "C14-no-panic", &line, "bus panicked or failed");
                    failed = true;
                    break;
                }
                Some(Ok(reply)) => reply,
            };
            // isolation monitor
            let mut verdict: Option<String> = None;
            let addressed = match &msg {
                Message::Hello(a) | Message::QueryState(a) | Message::PixelsComplete(a) | Message::Goodbye(a) => Some(a.0),
                Message::RequestOperation(a, _) => Some(a.0),
                _ => None,
            };
            match addressed {
                Some(a) => {
                    for i in 0..k {
                        if addrs[i] != a && *bus.sign(i) != before[i] {
                            verdict = Some(format!("message for {} changed sign {}", a, addrs[i]));
                        }
                    }
                    match addrs.iter().position(|x| *x == a) {
                        None => {
                            if reply.is_some() {
                                verdict = Some(format!("reply {} to an address nobody has", str_omsg(&reply)));
                            }
                        }
                        Some(i) => {
                            let mut alone = before[i].clone();
                            let alone_reply = alone.process_message(&msg);
                            if alone_reply != reply {
                                verdict = Some(format!("bus replied {} but the sign alone replies {}", str_omsg(&reply), str_omsg(&alone_reply)));
                            }
                            if alone != *bus.sign(i) {
                                verdict = Some("addressed sign's new state differs from what it does alone".to_string());
                            }
                            if let Some(rm) = &reply {
                                let ra = match rm {
                                    Message::ReportState(x, _) | Message::AckOperation(x, _) => Some(x.0),
                                    _ => None,
                                };
                                if ra != Some(a) {
                                    verdict = Some(format!("reply {} does not carry the addressed sign's address", str_msg(rm)));
                                }
                            }
                        }
                    }
                }
                None => {
                    if reply.is_some() {
                        verdict = Some("reply to an unaddressed message".to_string());
                    }
                    let is_data = matches!(msg, Message::SendData(_, _) | Message::DataChunksSent(_));
                    for i in 0..k {
                        let st = before[i].state();
                        let receiving = st == State::ConfigInProgress || st == State::PixelsInProgress;
                        let obs_changed = bus.sign(i).state() != before[i].state() || bus.sign(i).sign_type() != before[i].sign_type() || bus.sign(i).pages() != before[i].pages();
                        if (!receiving || !is_data) && obs_changed {
                            verdict = Some(format!("unaddressed message changed sign {} which is in state {}", addrs[i], str_state(st)));
                        }
                    }
                }
            }
            // twins
            for i in 0..k {
                let tst = twins[i].state();
                let deliver = match addressed {
                    Some(a) => a == addrs[i],
                    None => matches!(msg, Message::SendData(_, _) | Message::DataChunksSent(_)) && (tst == State::ConfigInProgress || tst == State::PixelsInProgress),
                };
                if deliver {
                    let tr = guarded(|| twins[i].process_message(&msg));
                    if addressed == Some(addrs[i]) && tr.as_ref().map(|x| x != &reply).unwrap_or(true) && verdict.is_none() {
                        verdict = Some(format!("sign {} on the shared bus replied {} but alone (seeing only its own traffic) it replies {}", addrs[i], str_omsg(&reply), tr.map(|x| str_omsg(&x)).unwrap_or_else(|| "PANIC".to_string())));
                    }
                }
                let s = bus.sign(i);
                if (s.state() != twins[i].state() || s.sign_type() != twins[i].sign_type() || s.pages() != twins[i].pages()) && verdict.is_none() {
                    verdict = Some(format!("sign {} differs from its solo twin after this message: bus {} / twin {}", addrs[i], obs(s), obs(&twins[i])));
                }
            }
            ctx.monitor(verdict.is_none(), "C14-isolation", &line, verdict.as_deref().unwrap_or(""));
            if verdict.is_some() {
                failed = true;
                break;
            }
        }
        let _ = failed;
        ctx.case(format!("BUS {} {} {}", k, head, hist.join(" ")), true, &format!("walk-{}-signs", k));
    }
    // a bus made of signs that were already in the middle of something when the bus was put together (driven alone
    // before): a sign waiting for its configuration block, a sign half-way through a page, next to a fresh one, in either
    // order on the bus.  Each must finish exactly as it would alone.
    for order in 0..2usize {
        let block = &config_blocks()[0].0;
        let page: Vec<String> = (0..6usize).map(|i| format!("SD.{}.{}", i * 16, chunk(16, i))).collect();
        for scenario in 0..3usize {
            let (pre, msgs, want): (Vec<String>, Vec<String>, &str) = match scenario {
                0 => (vec!["RO.3.RCF".into()], vec![format!("SD.0.{}", block), "DC.1".into(), "QS.3".into()], "RS.3.CRX"),
                1 => {
                    let mut pre = vec!["RO.3.RCF".to_string(), format!("SD.0.{}", block), "DC.1".into(), "RO.3.RPX".into()];
                    pre.extend(page[..3].iter().cloned());
                    let mut m: Vec<String> = page[3..].to_vec();
                    m.extend(["DC.6".to_string(), "QS.3".into()]);
                    (pre, m, "RS.3.PRX")
                }
                _ => {
                    let mut pre = vec!["RO.3.RCF".to_string(), format!("SD.0.{}", block), "DC.1".into(), "RO.3.RPX".into()];
                    pre.extend(page.iter().cloned());
                    (pre, vec!["DC.6".into(), "QS.3".into(), "PC.3".into(), "QS.3".into()], "RS.3.PLD")
                }
            };
            let (head, idx) = if order == 0 { ("3 M 5 A", 0) } else { ("5 A 3 M", 1) };
            let pre: Vec<String> = pre.iter().map(|m| format!("{}~{}", idx, m)).collect();
            let line = format!("BUSP 2 {} {} | {}", head, pre.join(" "), msgs.join(" "));
            let res = ctx.case(line.clone(), true, "bus-of-signs-with-a-past");
            let last = res.split(" # ").next().unwrap_or("").split(' ').filter(|x| !x.is_empty()).last().unwrap_or("").split('/').next().unwrap_or("").to_string();
            ctx.monitor(last == want, "C14-isolation", &line, &format!("the sign with a past answered {} at the end, alone it answers {}", last, want));
        }
    }
    // a long-lived bus: more than 65 536 messages for other addresses and for nobody pass a sign that is in a state a query
    // would move on (page show / load in progress); it must sit there untouched the whole time
    for (trans_op, later) in [("SLP", 65_600usize), ("SLP", 131_100)].into_iter().take(if thorough { 2 } else { 1 }) {
        let block = &config_blocks()[0].0; // 90 x 7: one page is 96 bytes
        let mut msgs: Vec<String> = vec!["RO.3.RCF".into(), format!("SD.0.{}", block), "DC.1".into(), "QS.3".into(), "RO.3.RPX".into()];
        for i in 0..6usize {
            msgs.push(format!("SD.{}.{}", i * 16, chunk(16, i)));
        }
        msgs.extend(["DC.6".to_string(), "QS.3".into(), "PC.3".into(), "QS.3".into(), format!("RO.3.{}", trans_op)]);
        let prior = msgs.len();
        for i in 0..later {
            msgs.push(match i % 4 {
                0 => "QS.9".to_string(),
                1 => "HE.5".to_string(),
                2 => "SD.0.01".to_string(),
                _ => "DC.7".to_string(),
            });
        }
        msgs.push("QS.3".into());
        let line = format!("BUS 2 3 M 5 A {}", msgs.join(" "));
        let res = ctx.case(line, true, "long-lived-bus");
        let toks: Vec<&str> = res.split(" # ").next().unwrap_or("").split(' ').filter(|s| !s.is_empty()).collect();
        let obs_of = |t: &str| t.split('/').nth(1).unwrap_or("?").to_string();
        let mut verdict: Option<String> = None;
        if toks.len() != msgs.len() {
            verdict = Some(format!("{} results for {} messages", toks.len(), msgs.len()));
        } else {
            let at_rest = obs_of(toks[prior - 1]);
            if !at_rest.starts_with("PSP") {
                verdict = Some(format!("the sign did not reach page-show-in-progress: {}", at_rest));
            }
            for (i, t) in toks.iter().enumerate().skip(prior).take(later) {
                if obs_of(t) != at_rest && verdict.is_none() {
                    verdict = Some(format!("message #{} ({}) for somebody else changed sign 3 from {} to {}", i + 1, msgs[i], at_rest, obs_of(t)));
                }
            }
        }
        ctx.monitor(verdict.is_none(), "C14-isolation", &format!("BUS 2 3 M 5 A <configure, one page, show> then {} messages for others", later), verdict.as_deref().unwrap_or(""));
    }
}

// ---------------------------------------------------------------------------------------------
// C10 / C11: exhaustive reply-alphabet DFS on the implementation

fn reply_alphabet(own: u16, foreign: u16) -> Vec<String> {
    // every kind of bus failure is a leaf of the tree (the call must end there with the bus error)
    let mut v = vec!["N".to_string(), "E".to_string(), "ET".to_string(), "EI".to_string(), "EW".to_string(), "EF".to_string(), "EG".to_string(), "ES".to_string(), "EB".to_string()];
    for a in [own, foreign] {
        for (_, st) in STATES.iter() {
            v.push(format!("RS.{}.{}", a, st));
        }
        for (_, op) in OPS.iter() {
            v.push(format!("AO.{}.{}", a, op));
        }
    }
    // an address that differs from the controller's in the high byte only (same low byte)
    let high = own ^ 0x0100;
    for st in ["UNC", "RTR", "CRX", "CFL", "PRX", "PFL", "PLD", "PSH", "SHP", "PLP", "PSP"] {
        v.push(format!("RS.{}.{}", high, st));
    }
    for (_, op) in OPS.iter() {
        v.push(format!("AO.{}.{}", high, op));
    }
    v.push(format!("GB.{}", own));
    v.push(format!("UN.{}.9.01", own));
    // a hand-built Unknown message around the frame of a report or an acknowledgement the operation is waiting for (a bus
    // implementation may hand back whatever it likes; Unknown is not the message its frame would decode to)
    for m in [format!("RS.{}.CRX", own), format!("RS.{}.PRX", own), format!("RS.{}.UNC", own), format!("RS.{}.PLD", own), format!("AO.{}.RCF", own), format!("AO.{}.RPX", own)] {
        let f = crate::eval::eval_case(&format!("M2F {}", m));
        let p: Vec<&str> = f.split('.').collect();
        if p.len() == 3 {
            v.push(format!("UN.{}.{}.{}", p[0], p[1], p[2]));
        }
    }
    v.push("SD.0.00".to_string());
    v.push(format!("HE.{}", own));
    // "=": the bus answers with the very message it was sent (an echo); materialised per node by the DFS
    v.push("=".to_string());
    v
}

/// The four C11 invariants, checked on the implementation's own conversation.
fn c11_monitor(op: &str, own: u16, trace: &[Message<'static>], script: &[Reply], outcome: &str) -> Option<String> {
    // own address only
    for m in trace {
        let a = match m {
            Message::Hello(a) | Message::QueryState(a) | Message::PixelsComplete(a) | Message::Goodbye(a) => Some(a.0),
            Message::RequestOperation(a, _) => Some(a.0),
            Message::ReportState(..) | Message::AckOperation(..) | Message::Unknown(..) => return Some(format!("controller emitted a sign-side message {}", str_msg(m))),
            _ => None,
        };
        if let Some(a) = a {
            if a != own {
                return Some(format!("addressed message {} does not carry the controller's address {}", str_msg(m), own));
            }
        }
    }
    let consumed = trace.len().min(script.len());
    // fail-stop: a bus error in the consumed prefix means the call ended there with the bus error
    for (i, r) in script[..consumed].iter().enumerate() {
        if matches!(r, Reply::BusErr(_)) {
            if i + 1 != trace.len() {
                return Some(format!("{} messages were sent after the bus error at reply {}", trace.len() - i - 1, i));
            }
            if outcome != "BUS" {
                return Some(format!("bus error at reply {} but outcome {}", i, outcome));
            }
        }
    }
    if outcome == "BUS" && !matches!(script.get(trace.len().wrapping_sub(1)), Some(Reply::BusErr(_))) {
        return Some("outcome is a bus error but the last consumed reply is not one".to_string());
    }
    // fail-stop on a reply the protocol does not allow at that point.  Two points are unambiguous whatever the
    // operation: data / count / pixels-complete / goodbye are answered by silence only, and an operation request
    // only by this sign's acknowledgement of that very operation.  Anything else there (from any address) ends
    // the call at once with a protocol error.
    for (i, r) in script[..consumed].iter().enumerate() {
        let rep = match r {
            Reply::Rep(x) => x,
            Reply::BusErr(_) => continue,
        };
        let allowed = match &trace[i] {
            Message::SendData(..) | Message::DataChunksSent(_) | Message::PixelsComplete(_) | Message::Goodbye(_) => rep.is_none(),
            Message::RequestOperation(a, o) => *rep == Some(Message::AckOperation(*a, *o)),
            _ => true,
        };
        if !allowed {
            if i + 1 != trace.len() {
                return Some(format!("{} messages were sent after the disallowed reply to message {} ({})", trace.len() - i - 1, i, str_msg(&trace[i])));
            }
            if outcome != "PROTO" {
                return Some(format!("disallowed reply to message {} ({}) but outcome {}", i, str_msg(&trace[i]), outcome));
            }
        }
    }
    let kind = &op[..3];
    let kind = if kind == "SNP" || kind == "SNW" || kind == "SNL" || kind == "SNQ" || kind == "SNF" { "SND" } else { kind };
    if kind == "CFG" || kind == "CIN" || kind == "SND" {
        let (recv_op, success, failure) = if kind == "SND" {
            (Operation::ReceivePixels, State::PixelsReceived, State::PixelsFailed)
        } else {
            (Operation::ReceiveConfig, State::ConfigReceived, State::ConfigFailed)
        };
        let reqs: Vec<usize> = trace.iter().enumerate().filter(|(_, m)| **m == Message::RequestOperation(Address(own), recv_op)).map(|(i, _)| i).collect();
        if reqs.len() > 3 {
            return Some(format!("{} transfer attempts", reqs.len()));
        }
        for &i in reqs.iter().skip(1) {
            let prev_is_query = i >= 1 && trace[i - 1] == Message::QueryState(Address(own));
            let prev_reply_failed = match script.get(i - 1) {
                Some(Reply::Rep(Some(m))) => *m == Message::ReportState(Address(own), failure),
                _ => false,
            };
            if !prev_is_query || !prev_reply_failed {
                return Some(format!("retry at message {} not preceded by the sign's own failure report", i));
            }
        }
        if outcome.starts_with("DONE") && reqs.is_empty() && kind != "CIN" {
            return Some("success reported without any transfer attempt".to_string());
        }
        if outcome.starts_with("DONE") && !reqs.is_empty() {
            // the query concluding the final attempt was answered by own 'received'
            let last_req = *reqs.last().unwrap();
            let q = trace.iter().enumerate().skip(last_req).find(|(_, m)| **m == Message::QueryState(Address(own))).map(|(i, _)| i);
            let ok = match q.and_then(|i| script.get(i)) {
                Some(Reply::Rep(Some(m))) => *m == Message::ReportState(Address(own), success),
                _ => false,
            };
            if !ok {
                return Some("success reported without the sign's own 'received' report concluding the final attempt".to_string());
            }
        }
    }
    None
}

fn run_ct(op: &str, script: &[String]) -> (Vec<Message<'static>>, String, bool) {
    let sc: Vec<Reply> = script.iter().map(|s| reply_of_str(s)).collect();
    let bus = Rc::new(RefCell::new(ScriptBus::new(sc)));
    let r = run_cop(op, bus.clone());
    let b = bus.borrow();
    (b.trace.clone(), str_outcome(&r, b.blocked), b.calls_after_error > 0)
}

fn dfs(ctx: &mut Ctx, op: &str, own: u16, alpha: &[String], script: &mut Vec<String>, poll_budget: usize, count: &mut u64, max: u64) {
    if *count >= max {
        return;
    }
    let (trace, outcome, after_err) = run_ct(op, script);
    *count += 1;
    let line = format!("CT {} {}", op, script.join(" "));
    let line = line.trim_end().to_string();
    ctx.case(line.clone(), !script.is_empty(), &format!("{}-{}", &op[..3], outcome.split('.').next().unwrap()));
    let sc: Vec<Reply> = script.iter().map(|s| reply_of_str(s)).collect();
    let v = c11_monitor(op, own, &trace, &sc, &outcome);
    ctx.monitor(v.is_none(), "C11-invariants", &line, v.as_deref().unwrap_or(""));
    ctx.monitor(!after_err, "C11-fail-stop", &line, "bus called again after an error");
    if outcome != "BLOCKED" {
        return;
    }
    // No operation explored here needs more than ~25 replies on the unchanged code (3 attempts x (request, chunks,
    // count, query) + reset + polling budget).  An implementation that keeps asking beyond that has already been
    // compared (and found different) at every shallower prefix; do not follow it into an unbounded conversation.
    if script.len() >= 48 {
        return;
    }
    for letter in alpha {
        // polling loops are unbounded: cut the number of in-progress / trigger replies
        let is_poll = op.starts_with("SHW") || op.starts_with("LNX");
        let mut budget = poll_budget;
        if is_poll && (letter.ends_with(".PLP") || letter.ends_with(".PSP") || letter.ends_with(".PLD") || letter.ends_with(".PSH")) && letter.starts_with(&format!("RS.{}.", own)) {
            if budget == 0 {
                continue;
            }
            budget -= 1;
        }
        let letter = if letter == "=" { str_msg(trace.last().unwrap()) } else { letter.clone() };
        script.push(letter);
        dfs(ctx, op, own, alpha, script, budget, count, max);
        script.pop();
    }
}

/// A bus that answers like an obliging sign at every address -- requests acknowledged, data met with silence, Hello with
/// `hello`, each state query with the next of `verdicts` (the last one for ever) -- and writes down what it answered, so
/// that the conversation can be replayed as a script.  `fail_at`: the reply with this index is a bus error instead.
struct ResponderBus {
    verdicts: VecDeque<String>,
    hello: String,
    given: Vec<String>,
    fail_at: Option<usize>,
    failed: bool,
    /// the verdicts go round and round instead of ending on the last one
    cycle: bool,
}

impl SignBus for ResponderBus {
    fn process_message<'a>(&mut self, message: Message<'_>) -> Result<Option<Message<'a>>, Box<dyn std::error::Error + Send + Sync>> {
        if self.failed || self.given.len() >= 4000 {
            self.failed = true;
            return Err("the bus has failed".into());
        }
        if self.fail_at == Some(self.given.len()) {
            self.failed = true;
            self.given.push("E".to_string());
            return Err("scripted bus error".into());
        }
        let r = match &message {
            Message::Hello(a) => format!("RS.{}.{}", a.0, self.hello),
            Message::QueryState(a) => {
                let v = if self.verdicts.len() > 1 { self.verdicts.pop_front().unwrap() } else { self.verdicts[0].clone() };
                if self.cycle {
                    self.verdicts.push_back(v.clone());
                }
                format!("RS.{}.{}", a.0, v)
            }
            Message::RequestOperation(a, o) => str_msg(&Message::AckOperation(*a, *o)),
            _ => "N".to_string(),
        };
        self.given.push(r.clone());
        Ok(if r == "N" { None } else { Some(own_msg(&msg_of_str(&r))) })
    }
}

/// send_pages over an iterator that makes calls of its own on the same bus (`SNN`): scripts recorded from an obliging
/// responder, with a bus error at every position and cut short at every position for the small ones.
fn snn_cases(ctx: &mut Ctx) {
    let mut rng = Rng::new(ctx.seed, 911);
    let own = 3u16;
    let t90 = SIGN_TYPES.iter().position(|t| *t == flipdot::SignType::Max3000Side90x7).unwrap();
    let p1 = small_page(1, 2, 8, &mut rng);
    let p2 = small_page(2, 2, 8, &mut rng);
    let p3 = small_page(3, 20, 8, &mut rng);
    let q = |p: &str| p.replace('.', ":");
    let nesteds: Vec<(String, Vec<String>)> = vec![
        ("BYE:7~-".to_string(), vec![p1.clone(), p2.clone()]),
        (format!("SND:3:{}~LNX:3:5", q(&p2)), vec![p1.clone(), p2.clone()]),
        (format!("SND:3:{}", q(&p2)), vec![p1.clone()]),
        (format!("SND:3:{}/SND:3:{}+{}", q(&p2), q(&p1), q(&p2)), vec![p3.clone()]),
        ("CFG:7:5~-".to_string(), vec![p1.clone(), p2.clone()]),
        (format!("CIN:3:{}/BYE:3", t90), vec![p1.clone()]),
        (format!("CFG:3:{}", t90), vec![p1.clone(), p3.clone()]),
        (format!("-~SND:3:{}+{}", q(&p2), q(&p3)), vec![p1.clone(), p2.clone()]),
        (format!("SHW:3:4~SND:7:{}~LNX:7:3", q(&p2)), vec![p1.clone(), p2.clone(), p3.clone()]),
        ("-~-".to_string(), vec![p1.clone(), p2.clone()]),
        // calls made each time the iterator is CLONED ('@' field): to another sign, a nested transfer on this one, with and
        // without pages to send, alone and together with calls made when pages are taken
        ("@BYE:7".to_string(), vec![p1.clone(), p2.clone()]),
        ("@BYE:7".to_string(), vec![]),
        (format!("@SND:3:{}", q(&p2)), vec![p1.clone()]),
        (format!("@CFG:3:{}~BYE:7", t90), vec![p1.clone(), p3.clone()]),
        (format!("@LNX:3:3/BYE:7~-~SND:3:{}", q(&p2)), vec![p1.clone(), p2.clone()]),
        ("@-".to_string(), vec![p1.clone()]),
        // a nested transfer on this sign whose own page source PANICS after its pages; the iterator catches the panic ('!')
        // and carries on
        (format!("!SNX:3:{}", q(&p2)), vec![p1.clone(), p3.clone()]),
        (format!("-~!SNX:3:{}+{}/BYE:7", q(&p2), q(&p1)), vec![p1.clone(), p2.clone()]),
        (format!("@!SNX:3:{}~!SNX:7:{}", q(&p1), q(&p2)), vec![p3.clone()]),
    ];
    let verdicts: Vec<Vec<&str>> = vec![
        vec!["PFL"],
        vec!["PRX"],
        vec!["PFL", "PRX"],
        vec!["PFL", "PFL", "PRX"],
        vec!["PRX", "PFL"],
        vec!["PFL", "PFL", "PFL", "PRX", "PLD", "PFL"],
        vec!["PRX", "PLD", "PFL", "PFL", "PRX"],
        vec!["CFL", "CRX", "PFL", "PRX", "PSH", "PLD", "PRX"],
        vec!["PFL", "PFL", "PFL", "PFL", "PFL", "PFL", "PFL", "PFL", "PFL", "PRX"],
        vec!["PLP", "PFL", "PSP", "PRX", "SHP"],
        // going round: a configuration is always received, pixels never (or only at the fourth try)
        vec!["@", "CRX", "PFL"],
        vec!["@", "PFL", "CRX"],
        vec!["CRX", "PFL", "CRX", "PFL", "CRX", "PFL", "CRX", "PRX", "PLD"],
        vec!["@", "PFL", "PFL", "PRX"],
    ];
    let record = |op: &str, v: &[&str], hello: &str, fail_at: Option<usize>| -> Vec<String> {
        let cycle = v[0] == "@";
        let v = if cycle { &v[1..] } else { v };
        let bus = Rc::new(RefCell::new(ResponderBus { verdicts: v.iter().map(|s| s.to_string()).collect(), hello: hello.to_string(), given: vec![], fail_at, failed: false, cycle }));
        let _ = run_cop(op, bus.clone());
        let g = bus.borrow().given.clone();
        g
    };
    for (ni, (nested, pages)) in nesteds.iter().enumerate() {
        let op = format!("SNN.{}.{}.{}", own, nested, if pages.is_empty() { "-".to_string() } else { pages.join("+") });
        let same_snd = nested.matches("SND:3:").count() + nested.matches("SNX:3:").count();
        for (vi, v) in verdicts.iter().enumerate() {
            let hello = if vi >= 10 { "UNC" } else { ["UNC", "CRX", "PLD", "RTR"][(ni + vi) % 4] };
            let full = record(&op, v, hello, None);
            let mut scripts: Vec<(Vec<String>, &str)> = vec![(full.clone(), "recorded")];
            if (ni + vi) % 3 == 0 || ctx.tier_thorough {
                let step = if ctx.tier_thorough { 1 } else { 1 + full.len() / 12 };
                for at in (0..full.len()).step_by(step) {
                    scripts.push((record(&op, v, hello, Some(at)), "bus-error-inside"));
                    scripts.push((full[..at].to_vec(), "cut-short"));
                }
            }
            // the very last reply (the state query that decides the flip style) from another address, or "showing pages"
            if full.len() >= 2 {
                for last in [format!("RS.{}.SHP", own - 1), format!("RS.{}.SHP", own + 1), format!("RS.{}.SHP", own), format!("RS.{}.PLD", own + 0x100)] {
                    let mut sc = full.clone();
                    let n = sc.len();
                    sc[n - 1] = last;
                    scripts.push((sc, "last-reply-varied"));
                }
            }
            // one of this sign's state reports withheld (no reply) or coming from an address that shares its low byte
            if (ni + vi) % 2 == 0 || ctx.tier_thorough {
                let pos: Vec<usize> = full.iter().enumerate().filter(|(_, r)| r.starts_with(&format!("RS.{}.", own))).map(|(i, _)| i).collect();
                let step = if ctx.tier_thorough { 1 } else { 1 + pos.len() / 6 };
                for &i in pos.iter().step_by(step) {
                    for alt in ["N".to_string(), full[i].replacen(&format!("RS.{}.", own), &format!("RS.{}.", own + 0x100), 1)] {
                        let mut sc = full.clone();
                        sc[i] = alt;
                        scripts.push((sc, "own-report-withheld-or-foreign"));
                    }
                }
            }
            for (script, class) in scripts {
                let line = format!("CT {} {}", op, script.join(" ")).trim_end().to_string();
                let res = ctx.case(line.clone(), true, &format!("talking-source-{}", class));
                let (tr, outcome) = res.split_once(" => ").unwrap_or(("", "?"));
                let trace: Vec<&str> = tr.split(' ').filter(|x| !x.is_empty()).collect();
                // bounded retries whatever the source does.  Only where the source's own calls request no pixel transfer of
                // this sign are the requests in the trace all the outer call's (how often the source is run per attempt is
                // nobody's promise, so nested transfers are not counted against a bound)
                if same_snd == 0 {
                    let reqs = trace.iter().filter(|m| **m == format!("RO.{}.RPX", own)).count();
                    ctx.monitor(reqs <= 3, "C11-invariants", &line, &format!("{} pixel transfers were requested of sign {} in one call; at most 3 attempts are allowed", reqs, own));
                }
                // confirmed success: a successful call ends  ... QueryState, PixelsComplete, QueryState  and the first of these
                // queries -- the one that concluded its final attempt -- was answered by this sign's own 'pixels received'
                if outcome.starts_with("DONE") {
                    let n = trace.len();
                    let ok = n >= 4 && trace[n - 2] == format!("PC.{}", own) && trace[n - 3] == format!("QS.{}", own) && script.get(n - 3).map(|r| r.as_str()) == Some(format!("RS.{}.PRX", own).as_str());
                    ctx.monitor(ok, "C11-invariants", &line, "success reported without the sign's own 'received' report concluding the final attempt");
                }
                // complete and ordered: a successful call has sent, in order, every chunk of every page and then their count
                if outcome.starts_with("DONE") {
                    let mut want: Vec<String> = vec![];
                    for p in pages {
                        let b = bytes_of_hex(p.split('.').nth(2).unwrap());
                        for (i, c) in b.chunks(16).enumerate() {
                            want.push(format!("SD.{}.{}", i * 16, hex_of_bytes(c)));
                        }
                    }
                    want.push(format!("DC.{}", want.len()));
                    want.push(format!("QS.{}", own));
                    want.push(format!("PC.{}", own));
                    let mut it = trace.iter();
                    let ok = want.iter().all(|w| it.any(|m| m == w));
                    ctx.monitor(ok, "C09-transfer-shape", &line, "a successful call did not send every chunk of every page, in order, then their count");
                }
            }
        }
    }
    // the same sources against virtual signs
    for (nested, pages) in [
        ("CFG:7:5~LNX:3:5".to_string(), vec![small_page(1, 90, 7, &mut rng), small_page(2, 90, 7, &mut rng)]),
        (format!("SND:3:{}~BYE:7", q(&small_page(9, 90, 7, &mut rng))), vec![small_page(1, 90, 7, &mut rng), small_page(2, 90, 7, &mut rng)]),
        (format!("CIN:3:{}~SHW:3:9~CIN:7:5", t90), vec![small_page(1, 90, 7, &mut rng), small_page(2, 90, 7, &mut rng), small_page(3, 90, 7, &mut rng)]),
    ] {
        for style in ["M", "A"] {
            let line = format!("CL 2 3 {} 7 M | CFG.3.{} SNN.3.{}.{} SHW.3.50 LNX.3.50", style, t90, nested, pages.join("+"));
            ctx.case(line, true, "talking-source-virtual-signs");
        }
    }
}

fn small_page(id: u8, w: u32, h: u32, rng: &mut Rng) -> String {
    let total = total_bytes(w as u64, h as u64) as usize;
    let mut b = rng.bytes(total);
    b[0] = id;
    format!("{}.{}.{}", w, h, hex_of_bytes(&b))
}

/// Several operations on ONE Sign object over one scripted bus (CTS): nothing an earlier call saw -- a failure, a retry
/// budget that ran out, a flip style, the pages sent, chunks counted before an abort -- may influence a later call.
/// Scripts are cooperative with faults injected at random steps; every operation's segment is checked with the C09 and
/// C11 monitors and the whole conversation is compared with the (stateless) model.
pub fn gen_cts(ctx: &mut Ctx, n: usize, stream: u64) {
    let mut rng = Rng::new(ctx.seed, stream);
    for k in 0..n {
        let own = *rng.pick(&[3u16, 0, 0x7F, 0xFFFF, 0x100]);
        let t = rng.below(11) as usize;
        let (w, h) = SIGN_SIZES[t];
        let big = *rng.pick(&[(8u32, 8u32), (20, 8), (w, h)]);
        let p1 = small_page(rng.byte(), big.0, big.1, &mut rng);
        let p2 = small_page(rng.byte(), big.0, big.1, &mut rng);
        let snd1 = format!("SND.{}.{}", own, p1);
        let snd2 = format!("SND.{}.{}+{}", own, p1, p2);
        let cfg = format!("CFG.{}.{}", own, t);
        let cin = format!("CIN.{}.{}", own, t);
        let shw = format!("SHW.{}.400", own);
        let lnx = format!("LNX.{}.400", own);
        let bye = format!("BYE.{}", own);
        // shaped sequences first (each family is what one kind of carried-over state would need), then random ones
        let ops: Vec<String> = match k % 8 {
            0 => vec![cfg.clone(), cfg.clone(), snd1.clone()],
            1 => vec![snd1.clone(), shw.clone(), lnx.clone(), snd1.clone(), shw.clone()],
            2 => vec![snd2.clone(), cfg.clone(), snd2.clone()],
            3 => vec![snd1.clone(), snd1.clone(), snd2.clone(), lnx.clone()],
            4 => vec![cin.clone(), snd2.clone(), cin.clone(), snd1.clone()],
            5 => vec![snd2.clone(), bye.clone(), snd2.clone(), shw.clone()],
            _ => (0..2 + rng.below(3)).map(|_| rng.pick(&[&cfg, &cin, &snd1, &snd2, &shw, &lnx, &bye]).to_string()).collect(),
        };
        // in a third of the sequences a second controller object (another address, another type) shares the bus and its
        // operations are interleaved with the first one's
        let other = own ^ 0x0101;
        let t2 = (t + 4) % 11;
        let ops: Vec<String> = if k % 3 == 1 {
            let mut v = vec![];
            for (i, o) in ops.iter().enumerate() {
                v.push(o.clone());
                match i % 3 {
                    0 => v.push(format!("CFG.{}.{}", other, t2)),
                    1 => v.push(format!("SND.{}.{}", other, small_page(7, 8, 8, &mut rng))),
                    _ => v.push(format!("SHW.{}.400", other)),
                }
            }
            v
        } else {
            ops
        };
        // how the far side behaves: which transfer attempts report failure, where a fault is injected
        let fail_pattern: Vec<u64> = (0..ops.len()).map(|i| if k % 8 == 0 && i == 0 { 3 } else { rng.below(4) }).collect();
        // up to three deviations from the cooperative script, at random steps
        let nfaults = [0usize, 1, 1, 2, 3][rng.below(5) as usize];
        let mut fault_at: Vec<i64> = (0..nfaults).map(|_| rng.below(45) as i64).collect();
        let fault_letters = ["E".to_string(), "ET".to_string(), "EI".to_string(), "EF".to_string(), "ES".to_string(), "EB".to_string(), "N".to_string(), "N".to_string(),
            format!("RS.{}.PFL", own), format!("RS.{}.CRX", own), format!("AO.{}.SRS", own ^ 1), format!("RS.{}.SHP", own ^ 1), format!("RS.{}.PRX", own ^ 0x0100), format!("GB.{}", own)];
        let mut fault: Vec<String> = (0..nfaults).map(|_| rng.pick(&fault_letters).clone()).collect();
        if k % 8 == 3 {
            // two sends on one Sign with a deviation at the LAST query of the first (the flip-style query) and at the
            // query CONCLUDING the transfer of the second: what the first call saw must not decide the second
            let n1 = (bytes_of_hex(p1.split('.').nth(2).unwrap()).len() / 16) as i64;
            let first_len = n1 + 5; // request, chunks, count, query, pixels-complete, query
            fault_at = vec![first_len - 1, first_len + n1 + 2];
            let quiet = ["N".to_string(), format!("RS.{}.SHP", own ^ 1), "E".to_string(), format!("AO.{}.RPX", own), format!("GB.{}", own)];
            fault = vec![rng.pick(&quiet).clone(), rng.pick(&quiet[..4]).clone()];
        }
        let mut auto = rng.chance(1, 2);
        let (ops, fail_pattern) = if k % 16 == 7 {
            // two sends on one Sign, the first answered "showing pages" at the flip-style query (automatic flip), the second
            // answered there with nothing conclusive: silence, a report from another address, a goodbye, an unknown frame.
            // The second call's style is decided by ITS OWN last reply.
            auto = true;
            let n1 = (bytes_of_hex(p1.split('.').nth(2).unwrap()).len() / 16) as i64;
            let first_len = n1 + 5;
            fault_at = vec![2 * first_len - 1];
            let quiet = ["N".to_string(), format!("RS.{}.SHP", own ^ 1), format!("GB.{}", own), format!("UN.{}.9.01", own), format!("RS.{}.SHP", own.wrapping_add(256))];
            fault = vec![quiet[(k / 16) % quiet.len()].clone()];
            (vec![snd1.clone(), snd1.clone()], vec![0u64, 0])
        } else {
            (ops, fail_pattern)
        };
        let mut r2 = Rng::new(rng.next(), 4242);
        let fp = fail_pattern.clone();
        let mut attempt_failures = 0u64;
        let mut op_index = 0usize;
        let mut steps = 0i64;
        let mut polls = 0u32;
        let flt = fault.clone();
        let decide = move |trace: &[Message<'static>]| -> Option<String> {
            steps += 1;
            if let Some(i) = fault_at.iter().position(|f| *f == steps - 1) {
                return Some(flt[i].clone());
            }
            let pending = trace.last().unwrap();
            // the far side answers from the address it was asked at
            let own = match pending {
                Message::Hello(a) | Message::QueryState(a) | Message::RequestOperation(a, _) => a.0,
                _ => own,
            };
            Some(match pending {
                Message::Hello(_) => {
                    let prev_finish = trace.len() >= 2 && matches!(trace[trace.len() - 2], Message::RequestOperation(_, Operation::FinishReset));
                    let prev_start = trace.len() >= 2 && matches!(trace[trace.len() - 2], Message::RequestOperation(_, Operation::StartReset));
                    if prev_finish {
                        format!("RS.{}.UNC", own)
                    } else if prev_start {
                        format!("RS.{}.RTR", own)
                    } else {
                        format!("RS.{}.{}", own, r2.pick(&["UNC", "RTR", "PLD", "CRX", "SHP", "PFL"]))
                    }
                }
                Message::QueryState(_) => {
                    let prev = if trace.len() >= 2 { Some(&trace[trace.len() - 2]) } else { None };
                    match prev {
                        Some(Message::DataChunksSent(_)) => {
                            let want = *fp.get(op_index).unwrap_or(&0);
                            let is_cfg = trace.iter().rev().find_map(|m| match m {
                                Message::RequestOperation(_, Operation::ReceiveConfig) => Some(true),
                                Message::RequestOperation(_, Operation::ReceivePixels) => Some(false),
                                _ => None,
                            }).unwrap_or(false);
                            if attempt_failures < want {
                                attempt_failures += 1;
                                format!("RS.{}.{}", own, if is_cfg { "CFL" } else { "PFL" })
                            } else {
                                attempt_failures = 0;
                                op_index += 1;
                                format!("RS.{}.{}", own, if is_cfg { "CRX" } else { "PRX" })
                            }
                        }
                        Some(Message::PixelsComplete(_)) => format!("RS.{}.{}", own, if auto { "SHP" } else { "PLD" }),
                        _ => {
                            // page flip polling: a few in-progress reports, then settle
                            polls += 1;
                            if auto {
                                format!("RS.{}.SHP", own)
                            } else {
                                format!("RS.{}.{}", own, ["PLD", "PSP", "PSH", "PLP"][(polls % 4) as usize])
                            }
                        }
                    }
                }
                Message::RequestOperation(_, o) => format!("AO.{}.{}", own, str_op(*o)),
                _ => "N".to_string(),
            })
        };
        let bus = Rc::new(RefCell::new(CoopBus { trace: vec![], script: vec![], decide: Box::new(decide), limit: 2000 }));
        {
            let dynbus: Rc<RefCell<dyn SignBus>> = bus.clone();
            let mut signs: HashMap<u16, flipdot::Sign> = HashMap::new();
            signs.insert(own, flipdot::Sign::new(dynbus.clone(), Address(own), SIGN_TYPES[t]));
            for op in &ops {
                let p: Vec<&str> = op.splitn(3, '.').collect();
                let a: u16 = p[1].parse().unwrap();
                let ty = match p[0] {
                    "CFG" | "CIN" => SIGN_TYPES[p[2].parse::<usize>().unwrap()],
                    _ => SIGN_TYPES[(a % 11) as usize],
                };
                let sign = signs.entry(a).or_insert_with(|| flipdot::Sign::new(dynbus.clone(), Address(a), ty));
                let _ = crate::eval::run_cop_on(sign, op);
            }
        }
        let script = bus.borrow().script.clone();
        let line = format!("CTS {} {} {} {}", own, t, ops.join(","), script.join(" "));
        let line = line.trim_end().to_string();
        let res = ctx.case(line.clone(), true, &format!("same-sign-{}", k % 8));
        // per-operation monitors on the implementation's own segments
        let mut consumed = 0usize;
        let short = if line.len() > 1500 { format!("{}...", &line[..1500]) } else { line.clone() };
        for (i, seg) in res.split(" ;; ").enumerate() {
            let (tr, outcome) = match seg.split_once(" => ") {
                Some(x) => x,
                None => ("", seg.trim_start_matches("=> ")),
            };
            let trace: Vec<Message<'static>> = tr.split(' ').filter(|s| !s.is_empty()).map(msg_of_str).collect();
            let sc: Vec<Reply> = script.iter().skip(consumed).map(|s| reply_of_str(s)).collect();
            let op = &ops[i.min(ops.len() - 1)];
            let own: u16 = op.splitn(3, '.').nth(1).unwrap().parse().unwrap();
            let tcfg: usize = if op.starts_with("CFG") || op.starts_with("CIN") { op.splitn(3, '.').nth(2).unwrap().parse().unwrap() } else { t };
            let v = c11_monitor(op, own, &trace, &sc, outcome);
            ctx.monitor(v.is_none(), "C11-invariants", &short, &format!("operation {} ({}): {}", i, &op[..3], v.as_deref().unwrap_or("")));
            if op.starts_with("SND") || op.starts_with("CFG") {
                let items: Vec<Vec<u8>> = if op.starts_with("CFG") {
                    vec![SIGN_TYPES[tcfg].to_bytes().to_vec()]
                } else {
                    op.splitn(3, '.').nth(2).unwrap().split('+').map(|p| bytes_of_hex(p.split('.').nth(2).unwrap())).collect()
                };
                let v9 = c09_monitor(own, recv_op(op.starts_with("CFG")), &items, &trace, &sc);
                ctx.monitor(v9.is_none(), "C09-transfer-shape", &short, &format!("operation {} ({}): {}", i, &op[..3], v9.as_deref().unwrap_or("")));
            }
            consumed += trace.len();
        }
    }
}

fn gen_c10(ctx: &mut Ctx) {
    let mut rng = Rng::new(ctx.seed, 10);
    let thorough = ctx.tier_thorough;
    let addrs: Vec<u16> = if thorough { vec![0, 3, 0x7F, 0x80, 0xFF, 0x100, 0xFFFF] } else { vec![3, 0xFFFF] };
    let types: Vec<usize> = if thorough { (0..11).collect() } else { vec![2, 7] };
    let max = if thorough { 400000 } else { 60000 };
    let poll = if thorough { 5 } else { 3 };
    for (ai, &own) in addrs.iter().enumerate() {
        let foreign = if own == 0xFFFF { 0 } else { own + 1 };
        let alpha = reply_alphabet(own, foreign);
        let mut ops: Vec<String> = vec![];
        for (ti, &t) in types.iter().enumerate() {
            if ti == ai % types.len() || thorough && ti % 3 == ai % 3 {
                ops.push(format!("CFG.{}.{}", own, t));
                ops.push(format!("CIN.{}.{}", own, t));
            }
        }
        ops.push(format!("SND.{}.-", own));
        ops.push(format!("SND.{}.{}", own, small_page(1, 8, 8, &mut rng)));
        if thorough || ai == 0 {
            ops.push(format!("SND.{}.{}+{}", own, small_page(1, 8, 8, &mut rng), small_page(2, 20, 8, &mut rng)));
        }
        ops.push(format!("SHW.{}.64", own));
        ops.push(format!("LNX.{}.64", own));
        ops.push(format!("BYE.{}", own));
        for op in ops {
            let mut count = 0u64;
            let mut script = vec![];
            dfs(ctx, &op, own, &alpha, &mut script, poll, &mut count, max);
            let e = ctx.notes.entry(format!("dfs-{}", &op[..3])).or_insert_with(String::new);
            e.push_str(&format!("{} ", count));
        }
    }
    // random long scripts (mostly cooperative with occasional deviations)
    let n = if thorough { 20000 } else { 1500 };
    for _ in 0..n {
        let own = *rng.pick(&[0u16, 3, 0x7F, 0x80, 0xFF, 0x100, 0xFFFF]);
        let alpha = reply_alphabet(own, own ^ 1);
        let op = match rng.below(7) {
            0 => format!("CFG.{}.{}", own, rng.below(11)),
            1 => format!("CIN.{}.{}", own, rng.below(11)),
            6 => format!("{}.{}.{}+{}", if rng.chance(1, 2) { "SNP" } else { "SNL" }, own, small_page(3, 8, 8, &mut rng), small_page(4, 20, 8, &mut rng)),
            2 => format!("SND.{}.{}", own, small_page(rng.byte(), 8, 8, &mut rng)),
            3 => format!("SHW.{}.200", own),
            4 => format!("LNX.{}.200", own),
            _ => format!("SND.{}.{}+{}", own, small_page(1, 8, 8, &mut rng), small_page(2, 8, 8, &mut rng)),
        };
        // follow the cooperative path, deviating with small probability
        let mut script: Vec<String> = vec![];
        loop {
            let (trace, outcome, _) = run_ct(&op, &script);
            if outcome != "BLOCKED" || script.len() > 150 {
                break;
            }
            let pending = trace.last().unwrap();
            let coop: String = match pending {
                Message::Hello(_) | Message::QueryState(_) => {
                    // plausible state for this point
                    let sts = ["UNC", "RTR", "CRX", "CFL", "PRX", "PFL", "PLD", "PSH", "PLP", "PSP", "SHP"];
                    format!("RS.{}.{}", own, rng.pick(&sts))
                }
                Message::RequestOperation(_, o) => format!("AO.{}.{}", own, str_op(*o)),
                _ => "N".to_string(),
            };
            let letter = if rng.chance(1, 12) { rng.pick(&alpha).clone() } else { coop };
            let letter = if letter == "=" { str_msg(pending) } else { letter };
            script.push(letter);
        }
        let (trace, outcome, after_err) = run_ct(&op, &script);
        let line = format!("CT {} {}", op, script.join(" "));
        ctx.case(line.clone(), true, "random-script");
        let sc: Vec<Reply> = script.iter().map(|s| reply_of_str(s)).collect();
        let v = c11_monitor(&op, own, &trace, &sc, &outcome);
        ctx.monitor(v.is_none(), "C11-invariants", &line, v.as_deref().unwrap_or(""));
        ctx.monitor(!after_err, "C11-fail-stop", &line, "");
    }
    // long polling: many in-progress reports in one show / load-next call (before and after the request), then settle
    let mut poll_counts = vec![49usize, 50, 51, 52, 100, 200, 301, 1000, 10_001, 25_000];
    if thorough {
        poll_counts.extend_from_slice(&[65_536, 70_000]);
    }
    for (k, n) in poll_counts.into_iter().enumerate() {
        for op in ["SHW", "LNX"] {
            if n > 1000 && (op == "LNX") != (k % 2 == 0) {
                continue;
            }
            let own = 3u16;
            let (busy, trigger, target, req) = if op == "SHW" { ("PSP", "PLD", "PSH", "SLP") } else { ("PLP", "PSH", "PLD", "LNP") };
            let mut script: Vec<String> = vec![];
            let before = if k % 2 == 0 { n / 3 } else { 0 };
            for i in 0..before {
                script.push(format!("RS.{}.{}", own, if i % 2 == 0 { "PLP" } else { "PSP" }));
            }
            script.push(format!("RS.{}.{}", own, trigger));
            script.push(format!("AO.{}.{}", own, req));
            for _ in before..n {
                script.push(format!("RS.{}.{}", own, busy));
            }
            script.push(format!("RS.{}.{}", own, target));
            let opstr = format!("{}.{}.{}", op, own, n + 50);
            let (trace, outcome, after_err) = run_ct(&opstr, &script);
            let line = format!("CT {} {}", opstr, script.join(" "));
            ctx.case(line.clone(), true, "long-polling");
            let short = format!("CT {} <{} in-progress reports>", opstr, n);
            ctx.monitor(outcome == "DONE" && trace.len() == script.len() && !after_err, "C11-invariants", &short, &format!("outcome {} after {} messages", outcome, trace.len()));
            if n == 25_000 {
                // the same on an ordinary 2 MiB stack (a child process): polling must not cost stack
                let res = ctx.case(format!("CHILD {}", line), true, "long-polling-small-stack");
                ctx.monitor(res.ends_with("=> DONE") || res == "UNAVAILABLE", "C11-invariants", &format!("CHILD {}", short), &res[res.len().saturating_sub(60)..]);
            }
        }
    }
    // a bus that takes real time (thorough tier only: each case costs its delay): an in-progress report arriving 6 s and
    // 13 s into a page flip, and a slow acknowledgement in the middle of a transfer, change nothing
    if thorough {
        for (idx, ms, op, script) in [
            (3usize, 6000u64, "SHW.3.64", "RS.3.PLD AO.3.SLP RS.3.PSP RS.3.PSP RS.3.PSH"),
            (2, 13000, "LNX.3.64", "RS.3.PSH AO.3.LNP RS.3.PLP RS.3.PLD"),
            (1, 6000, "SND.3.8.8.01100000FFFFFFFFFFFFFFFFFFFFFFFF", "AO.3.RPX N N RS.3.PRX N RS.3.PLD"),
        ] {
            let line = format!("CTD {} {} {} {}", idx, ms, op, script);
            let res = ctx.case(line.clone(), true, "slow-bus");
            ctx.monitor(res.ends_with("=> DONE") || res.ends_with("=> DONE.M"), "C11-invariants", &line, &res);
        }
    }
    // a bus that is merely slow (a step takes 0.6 s), with an in-progress report where the transfer's result is asked for:
    // that report is not the 'received' state, whatever time it is
    if std::env::var("FDX_SKIP_SLOW").is_err() {
        for (idx, op, script) in [
            (1usize, "CFG.3.2", "RS.3.UNC AO.3.RCF N N RS.3.CIP RS.3.CRX RS.3.CRX"),
            (2, "SND.3.8.8.01100000FFFFFFFFFFFFFFFFFFFFFFFF", "AO.3.RPX N N RS.3.PIP RS.3.PRX N RS.3.PLD"),
            (0, "SND.3.8.8.01100000FFFFFFFFFFFFFFFFFFFFFFFF", "AO.3.RPX N N RS.3.PFL AO.3.RPX N N RS.3.PIP RS.3.PRX N RS.3.PLD"),
            (3, "SHW.3.64", "RS.3.PLD AO.3.SLP RS.3.PSP RS.3.PSH"),
        ] {
            let line = format!("CTD {} 600 {} {}", idx, op, script);
            let res = ctx.case(line.clone(), true, "slow-bus");
            let sc: Vec<Reply> = script.split(' ').map(reply_of_str).collect();
            let (tr, oc) = res.split_once(" => ").unwrap_or(("", "?"));
            let trace: Vec<Message<'static>> = tr.split(' ').filter(|x| !x.is_empty()).map(msg_of_str).collect();
            let v = c11_monitor(op, 3, &trace, &sc, oc);
            ctx.monitor(v.is_none(), "C11-invariants", &line, v.as_deref().unwrap_or(""));
        }
    }
    gen_cts(ctx, if thorough { 6000 } else { 600 }, 1011);
}

// ---------------------------------------------------------------------------------------------
// C09: shape of every transfer attempt

/// Independent check of one conversation against the property text.
fn c09_monitor(own: u16, recv_op: Operation, items: &[Vec<u8>], trace: &[Message<'static>], script: &[Reply]) -> Option<String> {
    let a = Address(own);
    let mut i = 0;
    let mut attempts = 0;
    while i < trace.len() {
        if trace[i] != Message::RequestOperation(a, recv_op) {
            i += 1;
            continue;
        }
        attempts += 1;
        // acknowledgement obtained?
        let acked = matches!(script.get(i), Some(Reply::Rep(Some(m))) if *m == Message::AckOperation(a, recv_op));
        i += 1;
        if !acked {
            if i < trace.len() {
                if let Message::SendData(..) = trace[i] {
                    return Some("data sent without the sign's acknowledgement of the receive request".to_string());
                }
            }
            continue;
        }
        // the chunks of each item, in order
        let mut sent = 0u32;
        let mut complete = true;
        'items: for item in items {
            let mut off = 0usize;
            while off < item.len() {
                let end = (off + 16).min(item.len());
                match trace.get(i) {
                    None => {
                        complete = false;
                        break 'items;
                    }
                    Some(Message::SendData(o, d)) => {
                        if o.0 as usize != off % 65536 || d.get().as_ref() != &item[off..end] {
                            return Some(format!("chunk at message {}: offset {} / {} bytes, expected offset {} and bytes {}..{} of the item", i, o.0, d.get().len(), off, off, end));
                        }
                    }
                    Some(m) => return Some(format!("expected a data chunk at message {}, got {}", i, str_msg(m))),
                }
                sent += 1;
                // reply must have been None for the transfer to continue
                if !matches!(script.get(i), Some(Reply::Rep(None))) {
                    i += 1;
                    complete = false;
                    break 'items;
                }
                i += 1;
                off = end;
            }
        }
        if !complete {
            continue;
        }
        match trace.get(i) {
            None => {
                // every chunk went out and was met with silence, a further reply was on offer, and yet the controller
                // stopped: the transfer is not complete
                if i < script.len() {
                    return Some(format!("all {} chunks were sent and accepted, but the chunk count was never announced", sent));
                }
                continue;
            }
            Some(Message::DataChunksSent(n)) => {
                if n.0 as u32 != sent {
                    return Some(format!("announced {} chunks but sent {}", n.0, sent));
                }
            }
            Some(m) => return Some(format!("expected the chunk count after all chunks, got {}", str_msg(m))),
        }
        if !matches!(script.get(i), Some(Reply::Rep(None))) {
            i += 1;
            continue;
        }
        i += 1;
        match trace.get(i) {
            None => {
                if i < script.len() {
                    return Some("the chunk count was announced and accepted, but the result was never asked for".to_string());
                }
                continue;
            }
            Some(m) if *m == Message::QueryState(a) => {}
            Some(m) => return Some(format!("expected the result query after the count, got {}", str_msg(m))),
        }
        i += 1;
    }
    // no data chunk or count outside an attempt
    let mut in_attempt = false;
    for m in trace {
        match m {
            Message::RequestOperation(x, o) if *x == a && *o == recv_op => in_attempt = true,
            Message::SendData(..) | Message::DataChunksSent(..) if !in_attempt => return Some("data message before any receive request".to_string()),
            _ => {}
        }
    }
    if attempts > 3 {
        return Some(format!("{} attempts", attempts));
    }
    None
}

/// A bus that records what it is sent and asks a closure for each reply (one run instead of one per reply).
struct CoopBus {
    trace: Vec<Message<'static>>,
    script: Vec<String>,
    decide: Box<dyn FnMut(&[Message<'static>]) -> Option<String>>,
    limit: usize,
}
#[derive(Debug)]
struct CoopEnd;
impl std::fmt::Display for CoopEnd {
    fn fmt(&self, f: &mut std::fmt::Formatter<'_>) -> std::fmt::Result {
        write!(f, "cooperative script ended")
    }
}
impl std::error::Error for CoopEnd {}
impl SignBus for CoopBus {
    fn process_message<'a>(&mut self, message: Message<'_>) -> Result<Option<Message<'a>>, Box<dyn std::error::Error + Send + Sync>> {
        self.trace.push(own_msg(&message));
        if self.script.len() >= self.limit {
            return Err(Box::new(CoopEnd));
        }
        match (self.decide)(&self.trace) {
            None => Err(Box::new(CoopEnd)),
            Some(letter) => {
                self.script.push(letter.clone());
                match reply_of_str(&letter) {
                    Reply::BusErr(_) => Err(Box::new(CoopEnd)),
                    Reply::Rep(r) => Ok(r.map(|m| own_msg(&m))),
                }
            }
        }
    }
}

fn recv_op(is_cfg: bool) -> Operation {
    if is_cfg { Operation::ReceiveConfig } else { Operation::ReceivePixels }
}

fn gen_c09(ctx: &mut Ctx) {
    let mut rng = Rng::new(ctx.seed, 9);
    let thorough = ctx.tier_thorough;
    let n = if thorough { 1500 } else { 160 };
    for k in 0..n {
        let own = *rng.pick(&[0u16, 3, 0x7F, 0xFFFF, 0x1234]);
        let is_cfg = k % 4 == 0;
        let t = (k / 4) % 11;
        // page lists: sign sizes, foreign sizes, from one chunk up to large items
        let npages = rng.below(if thorough { 5 } else { 4 }) as usize;
        let mut pages: Vec<String> = vec![];
        let mut items: Vec<Vec<u8>> = vec![];
        for pi in 0..npages {
            let (w, h) = match rng.below(6) {
                0 => (8, 8),
                1 => SIGN_SIZES[rng.below(11) as usize],
                2 => (20, 8),
                3 => (1 + rng.below(40) as u32, 1 + rng.below(20) as u32),
                4 if thorough && k % 97 == 0 => (4000, 16),
                _ => (90, 7),
            };
            let p = small_page(pi as u8, w, h, &mut rng);
            items.push(bytes_of_hex(p.split('.').nth(2).unwrap()));
            pages.push(p);
        }
        if k == 1 || (thorough && k == 5) {
            // a single item at the 16-bit offset limit: 65536 bytes = 4096 chunks (last offset 65520)
            let p = if k == 1 { small_page(9, 65532 / 2, 16, &mut rng) } else { small_page(9, 65532, 8, &mut rng) };
            items = vec![bytes_of_hex(p.split('.').nth(2).unwrap())];
            pages = vec![p];
        }
        if k == 6 || k == 10 || (thorough && k % 50 == 7) {
            // long page lists: 257, 300 (one-chunk pages) -- every page is sent, the count covers them all
            let n = if k == 6 { 257 } else if k == 10 { 300 } else { 256 + rng.below(400) as usize };
            pages = (0..n).map(|j| small_page((j % 256) as u8, 8, 8, &mut rng)).collect();
            items = pages.iter().map(|p| bytes_of_hex(p.split('.').nth(2).unwrap())).collect();
        }
        if k == 14 {
            // the largest transfer the 16-bit chunk count can announce: exactly 65535 chunks (15 items of 4096 chunks and
            // one of 4095)
            pages = (0..15).map(|j| small_page(j as u8, 65532 / 2, 16, &mut rng)).collect();
            pages.push(small_page(99, 65516 / 2, 16, &mut rng));
            items = pages.iter().map(|p| bytes_of_hex(p.split('.').nth(2).unwrap())).collect();
        }
        if k == 18 {
            // an item longer than the 16-bit offset space: 65 584 bytes = 4 099 chunks, the last three at offsets that have
            // wrapped round to 0, 16, 32
            let p = small_page(9, 32790, 16, &mut rng);
            items = vec![bytes_of_hex(p.split('.').nth(2).unwrap())];
            pages = vec![p];
        }
        if k == 22 && cfg!(debug_assertions) {
            // one chunk more than the 16-bit chunk counter can count: 65 536 chunks (16 items of 4 096 chunks).  The counter
            // overflows: a panic where overflow is checked (this build); where it is not, the count wraps, which is
            // another case list's business
            pages = (0..16).map(|j| small_page(j as u8, 65532 / 2, 16, &mut rng)).collect();
            items = pages.iter().map(|p| bytes_of_hex(p.split('.').nth(2).unwrap())).collect();
        }
        if k == 2 {
            // one chunk short of the limit, followed by a second item (offset restart after a long item)
            let p = small_page(7, 65516 / 2, 16, &mut rng);
            let q = small_page(8, 8, 8, &mut rng);
            items = vec![bytes_of_hex(p.split('.').nth(2).unwrap()), bytes_of_hex(q.split('.').nth(2).unwrap())];
            pages = vec![p, q];
        }
        if k % 16 == 9 && !pages.is_empty() {
            // a page literal whose byte length is NOT the padded page size (ragged tail, too short, a whole chunk too
            // long): the library must refuse to build it; if it ever does build it, what is sent must still be
            // exactly the item's bytes in 16-byte chunks
            let last = pages.len() - 1;
            let parts: Vec<String> = pages[last].split('.').map(|s| s.to_string()).collect();
            let mut bytes = bytes_of_hex(&parts[2]);
            match (k / 16) % 4 {
                0 => bytes.extend(rng.bytes(4)),
                1 => bytes.extend(rng.bytes(15)),
                2 => { bytes.pop(); }
                _ => bytes.extend(rng.bytes(16)),
            }
            pages[last] = format!("{}.{}.{}", parts[0], parts[1], hex_of_bytes(&bytes));
            items[last] = bytes;
        }
        if k % 8 == 3 || k % 8 == 7 {
            // pages that end in (or consist of) what padding looks like: the last one, two, three chunks, all but the
            // first chunk, everything 0xFF -- on pages of the controller's own size and on larger ones (112 x 16 = 240
            // bytes, 40 x 12 = 96 bytes); every byte of every page is sent all the same
            if pages.is_empty() || k % 16 == 7 {
                pages = vec![small_page(1, 112, 16, &mut rng), small_page(2, 40, 12, &mut rng), small_page(3, 90, 7, &mut rng)];
            }
            for (pi, pg) in pages.iter_mut().enumerate() {
                let parts: Vec<String> = pg.split('.').map(|x| x.to_string()).collect();
                let mut bytes = bytes_of_hex(&parts[2]);
                let l = bytes.len();
                let m = [16usize, 32, 48, l.saturating_sub(16), l][(k / 8 + pi) % 5].min(l);
                for b in bytes[l - m..].iter_mut() {
                    *b = 0xFF;
                }
                *pg = format!("{}.{}.{}", parts[0], parts[1], hex_of_bytes(&bytes));
            }
            items = pages.iter().map(|p| bytes_of_hex(p.split('.').nth(2).unwrap())).collect();
        }
        // the same list from an iterator that looks at the shared bus whenever a page is taken from it (SNP), and -- once
        // per run, it costs 2.3 s per page after the first -- from one that takes its time over every page (SNW)
        let slow_iter = k == 13 && std::env::var("FDX_SKIP_SLOW").is_err();
        // a page source that can be walked only once (a shared queue) is used where the far side reports no failure
        let fails_q = k % 16 == 2;
        if slow_iter {
            pages = vec![small_page(1, 8, 8, &mut rng), small_page(2, 90, 7, &mut rng)];
            items = pages.iter().map(|p| bytes_of_hex(p.split('.').nth(2).unwrap())).collect();
        }
        let op = if is_cfg {
            items = vec![SIGN_TYPES[t].to_bytes().to_vec()];
            format!("CFG.{}.{}", own, t)
        } else {
            format!("{}.{}.{}", if slow_iter { "SNW" } else if k % 8 == 5 { "SNP" } else if k % 8 == 1 { "SNL" } else if k % 8 == 2 && fails_q { "SNQ" } else if k % 8 == 6 { "SNF" } else { "SND" }, own, if pages.is_empty() { "-".to_string() } else { pages.join("+") })
        };
        let fails_override = if slow_iter || (k % 8 == 2 && fails_q) { Some(0) } else { None };
        if crate::eval::snd_unconstructible(&op) {
            ctx.case(format!("CT {} N", op), true, "unconstructible-page");
            continue;
        }
        // retry pattern: how many failure reports before success (0..3), plus an occasional deviation
        let fails = if k == 14 || k == 18 || k == 22 { 0 } else { fails_override.unwrap_or(rng.below(4)) };
        // one interactive run: the bus decides each cooperative reply when it is asked for it
        let script: Vec<String> = {
            let mut r2 = Rng::new(rng.next(), 909);
            let mut failures_given = 0;
            let decide = move |trace: &[Message<'static>]| -> Option<String> {
                let pending = trace.last().unwrap();
                Some(match pending {
                    Message::Hello(_) => {
                        // reset conversation of configure
                        let prev_finish = trace.len() >= 2 && matches!(trace[trace.len() - 2], Message::RequestOperation(_, Operation::FinishReset));
                        let prev_start = trace.len() >= 2 && matches!(trace[trace.len() - 2], Message::RequestOperation(_, Operation::StartReset));
                        if prev_finish {
                            format!("RS.{}.UNC", own)
                        } else if prev_start {
                            format!("RS.{}.RTR", own)
                        } else {
                            format!("RS.{}.{}", own, r2.pick(&["UNC", "RTR", "PLD", "CRX"]))
                        }
                    }
                    Message::QueryState(_) => {
                        let after_count = trace.len() >= 2 && matches!(trace[trace.len() - 2], Message::DataChunksSent(_));
                        if after_count {
                            if failures_given < fails {
                                failures_given += 1;
                                format!("RS.{}.{}", own, if is_cfg { "CFL" } else { "PFL" })
                            } else {
                                format!("RS.{}.{}", own, if is_cfg { "CRX" } else { "PRX" })
                            }
                        } else {
                            format!("RS.{}.{}", own, r2.pick(&["PLD", "SHP"]))
                        }
                    }
                    Message::RequestOperation(_, o) => format!("AO.{}.{}", own, str_op(*o)),
                    _ => "N".to_string(),
                })
            };
            let bus = Rc::new(RefCell::new(CoopBus { trace: vec![], script: vec![], decide: Box::new(decide), limit: 300000 }));
            let _ = run_cop(&op, bus.clone());
            let b = bus.borrow();
            b.script.clone()
        };
        let (trace, outcome, _) = run_ct(&op, &script);
        let line = format!("CT {} {}", op, script.join(" "));
        // a far side that cooperates (at most two failure reports, then 'received') must see the whole transfer and a
        // successful call; with three failure reports the call gives up with a protocol error
        {
            let want_done = fails < 3;
            // (beyond the 16-bit chunk counter -- 65 536 chunks or more in one attempt -- the property promises nothing but
            // that the call does not claim success with a count that is not the number of chunks sent)
            let total_chunks: usize = items.iter().map(|it| (it.len() + 15) / 16).sum();
            let good = if total_chunks >= 65536 { !outcome.starts_with("DONE") || !cfg!(debug_assertions) } else if want_done { outcome.starts_with("DONE") } else { outcome == "PROTO" };
            let short = if line.len() > 600 { format!("{}...", &line[..600]) } else { line.clone() };
            ctx.monitor(good, "C09-transfer-shape", &short, &format!("a cooperative sign ({} failure reports) but the call ended {} after {} messages", fails, outcome, trace.len()));
        }
        ctx.case(line.clone(), true, &format!("{}-fails{}", if is_cfg { "configure" } else { "send_pages" }, fails));
        let sc: Vec<Reply> = script.iter().map(|s| reply_of_str(s)).collect();
        let recv = if is_cfg { Operation::ReceiveConfig } else { Operation::ReceivePixels };
        let v = c09_monitor(own, recv, &items, &trace, &sc);
        let short_line = if line.len() > 2000 { format!("{}...", &line[..2000]) } else { line.clone() };
        ctx.monitor(v.is_none(), "C09-transfer-shape", &short_line, v.as_deref().unwrap_or(""));
        if is_cfg {
            // the configuration sent is exactly the block of the controller's sign type
            let blocks: Vec<&Message<'static>> = trace.iter().filter(|m| matches!(m, Message::SendData(..))).collect();
            let ok = blocks.iter().all(|m| match m {
                Message::SendData(o, d) => o.0 == 0 && d.get().as_ref() == SIGN_TYPES[t].to_bytes(),
                _ => false,
            });
            ctx.monitor(ok, "C09-config-block", &short_line, "");
        }
        // the acknowledgement of the receive request must be this sign's ack of THAT operation: replace it
        // by an ack of another operation, an ack from another address, or a state report, and keep the rest
        // of the cooperative script (a correct controller stops there and sends no data)
        if script.len() < 400 && !slow_iter {
            let others: Vec<&str> = ["RCF", "RPX", "SLP", "LNP", "SRS", "FRS"].iter().copied().filter(|o| *o != str_op(recv_op(is_cfg))).collect();
            let mut variants: Vec<String> = others.iter().map(|o| format!("AO.{}.{}", own, o)).collect();
            variants.push(format!("AO.{}.{}", own ^ 1, str_op(recv_op(is_cfg))));
            variants.push(format!("AO.{}.{}", own.wrapping_add(256), str_op(recv_op(is_cfg))));
            variants.push(format!("RS.{}.{}", own, if is_cfg { "CIP" } else { "PIP" }));
            variants.push("N".to_string());
            let positions: Vec<usize> = (0..script.len().min(trace.len()))
                .filter(|&i| matches!(&trace[i], Message::RequestOperation(_, o) if *o == recv_op(is_cfg)))
                .collect();
            for (pi, &i) in positions.iter().enumerate() {
                let picks: Vec<String> = if k < 24 { variants.clone() } else { vec![rng.pick(&variants).clone(), rng.pick(&variants).clone()] };
                for v in picks {
                    if pi > 0 && k >= 24 && rng.chance(1, 2) {
                        continue;
                    }
                    let mut s2 = script.clone();
                    s2[i] = v;
                    let (trace2, _, _) = run_ct(&op, &s2);
                    let line2 = format!("CT {} {}", op, s2.join(" "));
                    ctx.case(line2.clone(), true, "wrong-ack");
                    let sc2: Vec<Reply> = s2.iter().map(|s| reply_of_str(s)).collect();
                    let recv = recv_op(is_cfg);
                    let v2 = c09_monitor(own, recv, &items, &trace2, &sc2);
                    let short2 = if line2.len() > 2000 { format!("{}...", &line2[..2000]) } else { line2.clone() };
                    ctx.monitor(v2.is_none(), "C09-transfer-shape", &short2, v2.as_deref().unwrap_or(""));
                }
            }
        }
        // truncated / deviating variants of the same conversation
        if script.len() > 2 {
            for _ in 0..2 {
                let cut = 1 + rng.below(script.len() as u64 - 1) as usize;
                let mut s2 = script[..cut].to_vec();
                s2.push(rng.pick(&["N", "E", &format!("RS.{}.PFL", own), &format!("AO.{}.RPX", own ^ 1)]).to_string());
                let (trace2, _, _) = run_ct(&op, &s2);
                let line2 = format!("CT {} {}", op, s2.join(" "));
                ctx.case(line2.clone(), true, "deviation");
                let sc2: Vec<Reply> = s2.iter().map(|s| reply_of_str(s)).collect();
                let v2 = c09_monitor(own, recv, &items, &trace2, &sc2);
                let short2 = if line2.len() > 2000 { format!("{}...", &line2[..2000]) } else { line2.clone() };
                ctx.monitor(v2.is_none(), "C09-transfer-shape", &short2, v2.as_deref().unwrap_or(""));
            }
        }
    }
    // operations sharing one Sign object: the chunk count of a transfer counts that transfer's chunks only
    gen_cts(ctx, if thorough { 3000 } else { 300 }, 909);
}

// ---------------------------------------------------------------------------------------------
// C08: closed loop controller x virtual sign from every explored prior state

fn gen_c08(ctx: &mut Ctx) {
    let mut rng = Rng::new(ctx.seed, 8);
    // Sign::create_page / width / height for every sign type: a blank page of the type's size with the given id
    for t in 0..11usize {
        for id in [0u8, 1, 0x7F, 0xFF, (t as u8).wrapping_mul(37)] {
            let line = format!("CP {} {}", t, id);
            let res = ctx.case(line.clone(), true, "create-page");
            let (w, h) = SIGN_SIZES[t];
            let total = total_bytes(w as u64, h as u64) as usize;
            let data = 4 + (w as usize) * ((h as usize + 7) / 8);
            let mut want = vec![0u8; total];
            want[0] = id;
            want[1] = 0x10;
            for b in want[data..].iter_mut() {
                *b = 0xFF;
            }
            ctx.monitor(res == format!("{} {} {}", w, h, hex_of_bytes(&want)), "C08-create-page", &line, &res[..res.len().min(80)]);
        }
    }
    let thorough = ctx.tier_thorough;
    let addrs: Vec<u16> = if thorough { vec![0, 3, 0x7F, 0x100, 0xFFFF] } else { vec![3, 0xFFFF] };
    let b = Bounds { pages: 1, pending_extra: 17, pending_pages: 1, chunks: 2, max_states: if thorough { 4000 } else { 700 } };
    let mut prior_count = 0usize;
    for (ai, &own) in addrs.iter().enumerate() {
        for style in [PageFlipStyle::Manual, PageFlipStyle::Automatic] {
            let ex = explore(ctx, own, style, false, &b, false);
            let nstates = ex.signs.len();
            let stride = if thorough { 1 } else { 1 + nstates / 120 };
            let mut i = (ai + if style == PageFlipStyle::Manual { 0 } else { 1 }) % stride;
            while i < nstates {
                prior_count += 1;
                let prior = ex.history(i);
                let sign = &ex.signs[i];
                let t = rng.below(11) as usize;
                let (w, h) = SIGN_SIZES[t];
                let npages = rng.below(if thorough { 4 } else { 3 }) as usize;
                // arbitrary ids: every third list repeats one id (pages that share an id are still distinct pages)
                let same_id = rng.chance(1, 3);
                let base_id = rng.byte();
                let pages: Vec<String> = (0..npages).map(|k| small_page(if same_id { base_id } else { rng.byte().wrapping_add(k as u8) }, w, h, &mut rng)).collect();
                let pstr = if pages.is_empty() { "-".to_string() } else { pages.join("+") };
                let use_cin = rng.chance(1, 2);
                let mut ops: Vec<String> = vec![];
                ops.push(format!("{}.{}.{}", if use_cin { "CIN" } else { "CFG" }, own, t));
                ops.push(format!("SND.{}.{}", own, pstr));
                ops.push(format!("SHW.{}.100", own));
                ops.push(format!("LNX.{}.100", own));
                ops.push(format!("SHW.{}.100", own));
                if rng.chance(1, 3) {
                    // repeated send
                    let pages2: Vec<String> = (0..1 + rng.below(2) as usize).map(|k| small_page(100 + k as u8, w, h, &mut rng)).collect();
                    ops.push(format!("SND.{}.{}", own, pages2.join("+")));
                }
                let line = format!("CL 1 {} {} {} | {}", own, str_style(style), prior.join(" "), ops.join(" "));
                let res = ctx.case(line.clone(), true, &format!("prior-{}", str_state(sign.state())));
                // property-level monitor
                let toks: Vec<&str> = res.split(" # ").next().unwrap_or("").split(' ').filter(|s| !s.is_empty()).collect();
                let ready = matches!(sign.state(), State::ConfigReceived | State::ShowingPages | State::PageLoaded | State::PageShowInProgress | State::PageShown | State::PageLoadInProgress);
                let in_quantifier = !use_cin || !ready || sign.sign_type() == Some(SIGN_TYPES[t]);
                let mut verdict: Option<String> = None;
                if in_quantifier && toks.len() >= 5 {
                    let manual = style == PageFlipStyle::Manual;
                    let cfg_tok = toks[0];
                    let reconfigured = !(use_cin && ready);
                    if !cfg_tok.starts_with("DONE/") {
                        verdict = Some(format!("configure gave {}", cfg_tok));
                    } else if reconfigured && !cfg_tok.starts_with(&format!("DONE/CRX.{}.0.", t)) {
                        verdict = Some(format!("after configure the sign is {}", cfg_tok));
                    }
                    let hp = hash_page_literals(&pages);
                    let want_snd = format!("DONE.{}/{}.{}.{}.{}", if manual { "M" } else { "A" }, if manual { "PLD" } else { "SHP" }, t, npages, hp);
                    if verdict.is_none() && toks[1] != want_snd {
                        verdict = Some(format!("send_pages gave {} wanted {}", toks[1], want_snd));
                    }
                    let want_show = format!("DONE/{}.{}.{}.{}", if manual { "PSH" } else { "SHP" }, t, npages, hp);
                    let want_load = format!("DONE/{}.{}.{}.{}", if manual { "PLD" } else { "SHP" }, t, npages, hp);
                    if verdict.is_none() && (toks[2] != want_show || toks[3] != want_load || toks[4] != want_show) {
                        verdict = Some(format!("show/load-next gave {} {} {}", toks[2], toks[3], toks[4]));
                    }
                } else if in_quantifier {
                    verdict = Some(format!("unexpected result {}", res));
                }
                ctx.monitor(verdict.is_none(), "C08-closed-loop", &line, verdict.as_deref().unwrap_or(""));
                i += stride;
            }
        }
    }
    // pages arrive bit-exact also from a page source that talks to OTHER signs on the same bus while it is drained (calls
    // that send addressed messages only: goodbye, page flips, configure_if_needed of a sign that is ready)
    for k in 0..(if thorough { 120 } else { 24 }) {
        let own = [3u16, 0x103, 0xFFFF][k % 3];
        let other = [7u16, 3, 0x2FF][k % 3];
        let style = if k % 2 == 0 { PageFlipStyle::Manual } else { PageFlipStyle::Automatic };
        let t = [5usize, 3, 2, 8, 0, 10][k % 6];
        let t2 = [2usize, 5, 9][k % 3];
        let (w, h) = SIGN_SIZES[t];
        let npages = 1 + k % 3;
        let pages: Vec<String> = (0..npages).map(|j| small_page(rng.byte().wrapping_add(j as u8), w, h, &mut rng)).collect();
        let calls: Vec<String> = (0..npages)
            .map(|j| match (k / 2 + j) % 5 {
                0 => format!("BYE:{}", other),
                1 => format!("SHW:{}:9/LNX:{}:9", other, other),
                2 => format!("CIN:{}:{}", other, t2),
                3 => "-".to_string(),
                _ => format!("LNX:{}:4/SHW:{}:4/CIN:{}:{}", other, other, other, t2),
            })
            .collect();
        // a goodbye leaves the other sign unconfigured: a later configure_if_needed of it would transfer data, so drop
        // whatever follows a goodbye
        let mut said_bye = false;
        let calls: Vec<String> = calls.into_iter().map(|c| if said_bye { "-".to_string() } else { said_bye = c.starts_with("BYE"); c }).collect();
        let line = format!("CL 2 {} {} {} M | CFG.{}.{} CFG.{}.{} SNN.{}.{}.{} SHW.{}.50", own, str_style(style), other, other, t2, own, t, own, calls.join("~"), pages.join("+"), own);
        let res = ctx.case(line.clone(), true, "source-talks-to-other-signs");
        let toks: Vec<&str> = res.split(" # ").next().unwrap_or("").split(' ').filter(|s| !s.is_empty()).collect();
        let manual = style == PageFlipStyle::Manual;
        let want = format!("DONE.{}/{}.{}.{}.{}/", if manual { "M" } else { "A" }, if manual { "PLD" } else { "SHP" }, t, npages, hash_page_literals(&pages));
        let ok = toks.len() >= 4 && toks[2].starts_with(&want);
        ctx.monitor(ok, "C08-closed-loop", &line, &format!("send_pages over a source that talks to sign {} gave {} wanted {}...", other, toks.get(2).unwrap_or(&"?"), want));
    }
    // long-lived Sign objects, two handles (A and B) for one address: whatever a handle remembers of its own earlier calls,
    // the other handle (or a shut-down, or a reconfiguration as another type) may have changed the sign since -- every
    // configure must still configure and every send must still arrive bit for bit
    for k in 0..(if thorough { 96 } else { 24 }) {
        let own = [3u16, 0xFFFF, 0x0103][k % 3];
        let style = if k % 2 == 0 { PageFlipStyle::Manual } else { PageFlipStyle::Automatic };
        let t = [5usize, 3, 2, 8][k % 4];
        let t2 = [2usize, 5, 9, 3][k / 4 % 4];
        let (w, h) = SIGN_SIZES[t];
        let (w2, h2) = SIGN_SIZES[t2];
        let pg = |id: u8, rng: &mut Rng| small_page(id, w, h, rng);
        let p_first = vec![pg(1, &mut rng)];
        let p_last: Vec<String> = (0..1 + k % 2).map(|j| pg(20 + j as u8, &mut rng)).collect();
        let q = small_page(9, w2, h2, &mut rng);
        let mut ops: Vec<String> = vec![format!("CFG.{}.{}", own, t), format!("SND.{}.{}", own, p_first.join("+"))];
        // what happens to the sign behind handle A's back
        match k / 3 % 4 {
            0 => ops.extend([format!("BYE.{}", own), format!("B:CFG.{}.{}", own, t2), format!("B:SND.{}.{}", own, q)]),
            1 => ops.extend([format!("BYE.{}", own), format!("B:CIN.{}.{}", own, t2)]),
            2 => ops.extend([format!("B:CFG.{}.{}", own, t2), format!("B:SND.{}.{}", own, q), format!("B:BYE.{}", own)]),
            _ => ops.extend([format!("SHW.{}.50", own), format!("BYE.{}", own), format!("BYE.{}", own), format!("B:CFG.{}.{}", own, t2)]),
        }
        ops.push(format!("{}.{}.{}", if k % 5 == 0 { "CIN" } else { "CFG" }, own, t));
        ops.push(format!("SND.{}.{}", own, p_last.join("+")));
        ops.push(format!("SHW.{}.50", own));
        let line = format!("CLS 1 {} {} | {}", own, str_style(style), ops.join(" "));
        let res = ctx.case(line.clone(), true, "two-handles-one-sign");
        let toks: Vec<&str> = res.split(" # ").next().unwrap_or("").split(' ').filter(|s| !s.is_empty()).collect();
        let manual = style == PageFlipStyle::Manual;
        // CIN may legitimately find the sign ready as another type and leave it; the sends are judged only after a CFG
        if k % 5 != 0 && toks.len() == ops.len() {
            let n = toks.len();
            let want_cfg = format!("DONE/CRX.{}.0.", t);
            let want_snd = format!("DONE.{}/{}.{}.{}.{}", if manual { "M" } else { "A" }, if manual { "PLD" } else { "SHP" }, t, p_last.len(), hash_page_literals(&p_last));
            let ok = toks[n - 3].starts_with(&want_cfg) && toks[n - 2] == want_snd;
            ctx.monitor(ok, "C08-closed-loop", &line, &format!("after the other handle's calls: configure gave {} and send_pages gave {} (wanted {}... and {})", toks[n - 3], toks[n - 2], want_cfg, want_snd));
        } else if k % 5 != 0 {
            ctx.monitor(false, "C08-closed-loop", &line, &format!("unexpected result {}", &res[..res.len().min(200)]));
        }
    }
    // a page source that configures THIS sign and sends it other pages while the outer send_pages is draining it: the nested
    // calls run their course (the sign ends up with the nested transfer's pages; the outer call, overtaken, reports a
    // protocol error)
    for k in 0..(if thorough { 24 } else { 6 }) {
        let own = [3u16, 0xFFFF][k % 2];
        let style = if k % 2 == 0 { PageFlipStyle::Manual } else { PageFlipStyle::Automatic };
        let t = [5usize, 3, 2][k % 3];
        let (w, h) = SIGN_SIZES[t];
        let outer: Vec<String> = (0..1 + k % 2).map(|j| small_page(j as u8 + 1, w, h, &mut rng)).collect();
        let inner = vec![small_page(77, w, h, &mut rng)];
        let line = format!("CL 1 {} {} | CFG.{}.{} SNN.{}.CFG:{}:{}/SND:{}:{}.{} QS0", own, str_style(style), own, t, own, own, t, own, inner[0].replace('.', ":"), outer.join("+"));
        let line = line.trim_end_matches(" QS0").to_string();
        let res = ctx.case(line.clone(), true, "source-reconfigures-and-sends-to-this-sign");
        let toks: Vec<&str> = res.split(" # ").next().unwrap_or("").split(' ').filter(|s| !s.is_empty()).collect();
        let manual = style == PageFlipStyle::Manual;
        let want = format!("PROTO/{}.{}.1.{}", if manual { "PLD" } else { "SHP" }, t, hash_page_literals(&inner));
        let ok = toks.len() == 2 && toks[1] == want;
        ctx.monitor(ok, "C08-closed-loop", &line, &format!("wanted {} got {}", want, toks.get(1).unwrap_or(&"?")));
    }
    ctx.notes.insert("prior-states".into(), prior_count.to_string());
    // page flipping across repeated sends: send L1 pages, flip part of the way through them, send L2 pages (fewer, the
    // same number, more, none), keep flipping -- on manual and automatic signs
    for k in 0..(if thorough { 300 } else { 48 }) {
        let own = 3u16;
        let t = [5usize, 3, 2, 8][k % 4];
        let (w, h) = SIGN_SIZES[t];
        let l1 = 1 + k % 4;
        let flips = k / 4 % 5;
        let l2 = (k / 20) % 4;
        let style = if k % 3 == 0 { "A" } else { "M" };
        let pages1: Vec<String> = (0..l1).map(|j| small_page(j as u8, w, h, &mut rng)).collect();
        let pages2: Vec<String> = (0..l2).map(|j| small_page(50 + j as u8, w, h, &mut rng)).collect();
        let mut ops = vec![format!("CFG.{}.{}", own, t), format!("SND.{}.{}", own, pages1.join("+"))];
        for _ in 0..flips {
            ops.push(format!("SHW.{}.60", own));
            ops.push(format!("LNX.{}.60", own));
        }
        ops.push(format!("SND.{}.{}", own, if pages2.is_empty() { "-".to_string() } else { pages2.join("+") }));
        ops.push(format!("SHW.{}.60", own));
        ops.push(format!("LNX.{}.60", own));
        ops.push(format!("SHW.{}.60", own));
        let line = format!("CL 1 {} {} | {}", own, style, ops.join(" "));
        let res = ctx.case(line.clone(), true, "flip-across-resend");
        let toks: Vec<&str> = res.split(" # ").next().unwrap_or("").split(' ').filter(|s| !s.is_empty()).collect();
        let all_done = toks.len() == ops.len() && toks.iter().all(|x| x.starts_with("DONE"));
        let hp2 = hash_page_literals(&pages2);
        let want_last = format!("DONE/{}.{}.{}.{}", if style == "M" { "PSH" } else { "SHP" }, t, l2, hp2);
        ctx.monitor(all_done && toks.last() == Some(&want_last.as_str()), "C08-closed-loop", &line[..line.len().min(600)], &format!("results {:?}", toks.iter().map(|x| &x[..x.len().min(24)]).collect::<Vec<_>>()));
    }
    // multi-sign buses: the configured sign is not the first one, others are mid-transfer
    for k in 0..(if thorough { 200 } else { 30 }) {
        // addresses on the bus: unrelated ones, and ones that agree modulo 256 with the configured sign before or after them
        let (a0, own, a2) = [(5u16, 7u16, 9u16), (0x0107, 7, 0x0207), (7, 0x0107, 0x0307)][(k / 2) % 3];
        let t = k % 11;
        let (w, h) = SIGN_SIZES[t];
        let pages: Vec<String> = (0..1 + k % 3).map(|j| small_page(j as u8, w, h, &mut rng)).collect();
        let prior = [
            format!("RO.{}.RCF", a0),
            format!("SD.0.{}", config_blocks()[2].0),
            "DC.1".to_string(),
            format!("RO.{}.RPX", a0),
            format!("SD.0.{}", chunk(16, 1)),
            format!("RO.{}.{}", own, rng.pick(&["RCF", "SRS"])),
        ];
        // the page list reaches send_pages as a slice / vector iterator, through a filter that drops elements, with a useless
        // size_hint, from a queue
        let snd = ["SND", "SNF", "SNL", "SNQ"][k % 4];
        let line = format!("CL 3 {} M {} {} {} A {} | CFG.{}.{} {}.{}.{} SHW.{}.50", a0, own, if k % 2 == 0 { "M" } else { "A" }, a2, prior.join(" "), own, t, snd, own, pages.join("+"), own);
        let res = ctx.case(line.clone(), true, "multi-sign");
        // the target (second of three signs) ends up holding exactly the pages sent, whatever the others are doing
        let toks: Vec<&str> = res.split(" # ").next().unwrap_or("").split(' ').filter(|s| !s.is_empty()).collect();
        let hp = hash_page_literals(&pages);
        let ok = toks.len() == 3
            && toks.iter().all(|x| x.starts_with("DONE"))
            && toks[1].split('/').nth(2).map(|o| o.ends_with(&format!(".{}.{}.{}", t, pages.len(), hp))).unwrap_or(false);
        ctx.monitor(ok, "C08-closed-loop", &line[..line.len().min(500)], &format!("{:?}", toks.iter().map(|x| &x[..x.len().min(60)]).collect::<Vec<_>>()));
    }
}
