//! State-machine generators (virtual sign BFS, controller reply-script DFS).
use crate::Ctx;
pub fn generate_sm(prop: &str, _ctx: &mut Ctx) {
    panic!("no generator for {}", prop);
}
