#!/bin/sh
# Build everything the checks need, offline, from files on disk only:
# the Coq development (full .vo build), the extracted OCaml oracle, the Rust harness.
set -e
cd "$(dirname "$0")"
export CARGO_NET_OFFLINE=true
( cd coq && coq_makefile -f _CoqProject -o Makefile > /dev/null && timeout 3000 make -j"$(nproc)" > /dev/null )
sh oracle/build.sh
mkdir -p .cache
cp /repo/Cargo.lock harness/Cargo.lock
( cd harness && CARGO_TARGET_DIR="$PWD/../.cache/target" RUSTFLAGS="--cfg flipdot_verif" cargo build --offline --quiet )
( cd harness && CARGO_TARGET_DIR="$PWD/../.cache/target" RUSTFLAGS="--cfg flipdot_verif" cargo build --offline --quiet --release )
echo "setup ok"
